#!/bin/bash
# usage: tools_seed_eval_wt.sh <tree-with-the-change> <PROP> [tier] [seed-id]
# like tools_seed_eval.sh, but leaves /repo alone: a scratch copy of /verif (own build directory, own evidence / replays)
# runs the check with XENIUM_REPO pointing at a tree that carries the seeded change (the author's scratch worktree, or a
# scratch worktree to which seeded/<id>/patch.diff was applied).  Several evaluations can run side by side, and checks that
# are running against /repo at the same time are not disturbed.  Output and up to three replays are filed under
# seeded/<seed-id>/caught_by_<PROP>_<tier>/.
set -u
wt=$1; prop=$2; tier=${3:-quick}; sid=${4:-$prop}
sc=/dev/shm/ve_${sid}_${prop}_$$
mkdir -p $sc
rsync -a --exclude .git --exclude build --exclude replays --exclude seeded --exclude evidence_thorough /verif/ $sc/
mkdir -p $sc/replays
( cd $sc && XENIUM_REPO=$wt ./check $prop --tier $tier > $sc/out.txt 2>&1 ); rc=$?
dest=/verif/seeded/$sid/caught_by_${prop}_$tier
rm -rf $dest; mkdir -p $dest
grep -v "^WARNING" $sc/out.txt | cut -c1-600 | tail -40 > $dest/check_output.txt
echo "exit=$rc (XENIUM_REPO=$wt)" >> $dest/check_output.txt
n=0
for f in $(ls $sc/replays); do n=$((n+1)); [ $n -le 3 ] && cp $sc/replays/$f $dest/; done
rm -rf $sc
grep -v "^WARNING" $dest/check_output.txt | cut -c1-300 | tail -6
echo "check exit=$rc"
