#!/bin/bash
# usage: tools_seed_eval.sh <patch.diff> <PROP> [tier]   -- applies a seeded change to /repo, runs the check, reverts
set -u
patch=$1; prop=$2; tier=${3:-quick}
cd /verif
git -C /repo diff --quiet || { echo "/repo not clean"; exit 3; }
git -C /repo apply "$patch" || { echo "patch does not apply"; exit 3; }
git -C /repo diff --stat | tail -1
./check $prop --tier $tier 2>&1 | grep -v "^WARNING" | tail -8
rc=${PIPESTATUS[0]}
git -C /repo checkout -- .
git -C /repo diff --quiet && echo "reverted; check exit=$rc"
