#!/bin/bash
# usage: tools_seed_eval.sh <patch.diff> <PROP> [tier] [seed-id]
# applies a seeded change to /repo, runs the check, reverts /repo, restores the evidence file of the clean tree and
# files the replays / output of the seeded run under seeded/<seed-id>/caught_by_<PROP>_<tier>/
set -u
patch=$1; prop=$2; tier=${3:-quick}; sid=${4:-$prop}
cd /verif
git -C /repo diff --quiet || { echo "/repo not clean"; exit 3; }
git -C /repo apply "$patch" || { echo "patch does not apply"; exit 3; }
git -C /repo diff --stat | tail -1
cp evidence/$prop.json /dev/shm/ev_$prop.$$ 2>/dev/null
ls replays > /dev/shm/rp_before.$$
out=/dev/shm/seed_out.$$
./check $prop --tier $tier > $out 2>&1
rc=$?
git -C /repo checkout -- .
dest=seeded/$sid/caught_by_${prop}_$tier
rm -rf $dest; mkdir -p $dest
grep -v "^WARNING" $out | cut -c1-600 | tail -40 > $dest/check_output.txt
echo "exit=$rc" >> $dest/check_output.txt
n=0
for f in $(ls replays | grep -vxFf /dev/shm/rp_before.$$); do
  n=$((n+1)); if [ $n -le 3 ]; then mv replays/$f $dest/; else rm replays/$f; fi
done
[ -f /dev/shm/ev_$prop.$$ ] && mv /dev/shm/ev_$prop.$$ evidence/$prop.json
rm -f /dev/shm/rp_before.$$ $out
grep -v "^WARNING" $dest/check_output.txt | cut -c1-300 | tail -6
git -C /repo diff --quiet && echo "reverted; check exit=$rc"
