# Build of the xmc runtime and the harness binaries.  Harness TUs include xenium from $(REPO)'s
# current working tree and are compiled with TSan *instrumentation* but linked against xmc's own runtime.
REPO ?= /repo
B := build
CXX := g++
RTFLAGS := -fno-pie -std=c++17 -O2 -g -fno-omit-frame-pointer -Wall -Wextra -Wno-format-truncation -I.
# prod variant: production memory orders + explicit fences (XENIUM_TSAN undefined)
HFLAGS_BASE := -fno-pie -std=c++17 -O1 -g -fsanitize=thread -DXENIUM_VERIF -I$(REPO) -I. -MMD -MP -w
HFLAGS_COMMON := $(HFLAGS_BASE) -DNDEBUG
HFLAGS_prod := $(HFLAGS_COMMON) -U__SANITIZE_THREAD__
HFLAGS_tsanv := $(HFLAGS_COMMON)
# dbg variant: production memory orders with the library's own assert()s armed (an assertion failure is a CRASH verdict)
HFLAGS_dbg := $(HFLAGS_BASE) -U__SANITIZE_THREAD__
LIBS := -lpthread -ldl -Wl,-z,now -no-pie

HARNESSES := $(basename $(notdir $(wildcard harness/*.cpp)))

all: $(HARNESSES:%=$(B)/%.prod)

$(B)/rt.o: xmc/rt.cpp xmc/rt_internal.h xmc/xmc.h | $(B)
	$(CXX) $(RTFLAGS) -c $< -o $@
$(B)/explore.o: xmc/explore.cpp xmc/rt_internal.h xmc/xmc.h | $(B)
	$(CXX) $(RTFLAGS) -c $< -o $@

$(B)/%.prod.o: harness/%.cpp | $(B)
	$(CXX) $(HFLAGS_prod) -c $< -o $@
$(B)/%.tsanv.o: harness/%.cpp | $(B)
	$(CXX) $(HFLAGS_tsanv) -c $< -o $@
$(B)/%.dbg.o: harness/%.cpp | $(B)
	$(CXX) $(HFLAGS_dbg) -c $< -o $@

$(B)/%.prod: $(B)/%.prod.o $(B)/rt.o $(B)/explore.o
	$(CXX) -o $@ $^ $(LIBS)
$(B)/%.tsanv: $(B)/%.tsanv.o $(B)/rt.o $(B)/explore.o
	$(CXX) -o $@ $^ $(LIBS)
$(B)/%.dbg: $(B)/%.dbg.o $(B)/rt.o $(B)/explore.o
	$(CXX) -o $@ $^ $(LIBS)

$(B):
	mkdir -p $(B)

clean:
	rm -rf $(B)

.PRECIOUS: $(B)/%.prod.o $(B)/%.tsanv.o $(B)/%.dbg.o
-include $(wildcard $(B)/*.d)
