#!/usr/bin/env python3
"""usage: tools_seed_file.py <seed-id> <property> <scratch-worktree> <summary> <needs> <caught_by ...>
files a confirmed seeded change under seeded/<seed-id>/ (patch.diff, demo.cpp, notes.md, confirm.log, meta.json)"""
import json, os, shutil, subprocess, sys
sid, prop, wt, summary, needs = sys.argv[1:6]
caught = sys.argv[6:]
d = os.path.join(os.path.dirname(os.path.abspath(__file__)), "seeded", sid)
os.makedirs(d, exist_ok=True)
patch = subprocess.run(["git", "-C", wt, "diff", "--", "xenium"], stdout=subprocess.PIPE, text=True).stdout
open(os.path.join(d, "patch.diff"), "w").write(patch)
for f in ("demo.cpp", "notes.md"):
    if os.path.exists(os.path.join(wt, "demo", f)):
        shutil.copy(os.path.join(wt, "demo", f), os.path.join(d, f))
log = wt + ".confirm.log"
conf = open(log).read() if os.path.exists(log) else ""
open(os.path.join(d, "confirm.log"), "w").write(conf)
base = subprocess.run(["git", "-C", wt, "rev-parse", "--short", "HEAD"], stdout=subprocess.PIPE, text=True).stdout.strip()
suite_ok = "100% tests passed" in conf
sec = conf.split("== demo with the change")[-1] if "== demo with the change" in conf else ""
import re
with_part, without_part = (re.split(r"== demo against the unchanged[^\n]*", sec, maxsplit=1) + [""])[:2]
meta = {
    "property": prop, "summary": summary, "needs": needs, "caught_by": caught, "base_commit": base,
    "written_by": "independent sub-agent (seventh round) given only the property text, a scratch worktree and a list of code sites to avoid",
    "confirmed": {
        "compiles_and_existing_suite_passes_with_change": "ctest re-run by me in the scratch worktree with the change applied (tools_seed_confirm.sh): " + ("100% passed" if suite_ok else "NOT CONFIRMED"),
        "demo_fails_with_change": "exit=1" in with_part or "exit=66" in with_part or "exit=134" in with_part or "exit=139" in with_part,
        "demo_passes_without_change": "exit=0" in without_part and "exit=1" not in without_part,
        "how": "tools_seed_confirm.sh <worktree>: cmake --build --target gtest && ctest in the worktree; demo.cpp compiled against the worktree (3 runs) and against /repo HEAD (3 runs); log in confirm.log",
    },
    "how_run": "tools_seed_eval_wt.sh <scratch worktree carrying the change> %s quick %s (scratch copy of /verif, XENIUM_REPO pointing at the changed tree; /repo untouched); output and replays: seeded/%s/caught_by_*_quick/" % (prop, sid, sid),
}
json.dump(meta, open(os.path.join(d, "meta.json"), "w"), indent=1)
print(sid, "suite_ok=%s demo_with_fails=%s demo_without_passes=%s" % (suite_ok, meta["confirmed"]["demo_fails_with_change"], meta["confirmed"]["demo_passes_without_change"]))
