"""Which explorations decide which property, per tier.  Pure data; read by ./check."""

TITLES = {}
PLAN = {}

RECL_ALL = ["hp", "hpd", "he", "hed", "qsbr", "ebr", "nebr", "debra", "gebr_lazy", "gebr_thr", "stamp", "lfrc", "lfrc_tl"]
RECL_QUICK = ["hp", "ebr", "stamp", "lfrc"]


def run(bin, test, c=2, **kw):
    d = {"bin": bin, "test": test, "c": c}
    d.update(kw)
    return d


# ------------------------------------------------------------------------------------------------- C04
TITLES["C04"] = "michael_scott, ramalhete and nikolaev queues are linearizable FIFO queues"
_q_variants = ["ms", "ram_e1p1", "ram_e2p0", "nik_e1p1", "nik_e2p0"]
_c04_quick = []
for q in _q_variants:
    for r in RECL_QUICK:
        _c04_quick.append(run("queues", "%s_%s" % (q, r), c=1 if r == "stamp" else 2, weight=1.0))
_c04_thorough = []
for q in _q_variants:
    for r in RECL_ALL:
        _c04_thorough.append(run("queues", "%s_%s" % (q, r), c=2, weight=4.0 if r == "stamp" else 1.0))
    # three threads (two producers + consumer etc.), one operation each, c=2
    for r in ["hp", "ebr", "lfrc"]:
        _c04_thorough.append(run("queues", "%s_%s" % (q, r), c=2, opt={"T": 3, "m": 1, "prefill": 1}, weight=1.0))
    # deeper preemption bound on the cheapest reclaimer
    _c04_thorough.append(run("queues", "%s_lfrc" % q, c=3, opt={"prefill": 0}, weight=6.0))
PLAN["C04"] = {
    "quick": _c04_quick,
    "thorough": _c04_thorough,
    "budget_s": {"quick": 170, "thorough": 1500},
    "rule": "programs: T threads x m operations over {push, try_pop} (all assignments, thread-symmetric duplicates and pop-free programs pruned), "
            "0/1 prefilled elements, final drain by T0; node sizes entries_per_node 1|2, pop_retries 0|1; oracle: Wing-Gong linearizability against a "
            "sequential FIFO (std::deque-like) + heap lifetime shadow + happens-before race detector + solo-progress monitor",
    "assumptions": ["values are small distinct integers (raw-pointer queues carry them encoded in never dereferenced pointers)"],
}

LEVEL_TEXT = {}
NOT_APPLICABLE = {}
LEVEL_TEXT["C04"] = ("every interleaving with at most c preemptions (c=2 quick; up to 3 thorough) of every enumerated 2-3 thread push/try_pop program on the real "
                     "queues with node sizes 1-2 is executed and its history checked for linearizability against a FIFO, with use-after-free, race and "
                     "progress monitors armed; exhaustive within the stated bounds, nothing is sampled")

# ------------------------------------------------------------------------------------------------- C01 / C02 / C17
# reclaim.cpp op bits: 0 read, 1 read_hold, 2 read_if_equal, 3 copy_read, 4 move_read, 5 replace, 6 remove, 7 rg_read, 8 none
TITLES["C01"] = "Safe memory reclamation: no object is destroyed while a guard_ptr protects it"
_c01_quick, _c01_thorough = [], []
for r in RECL_ALL:
    st = r == "stamp"
    # all 2x2 programs over {read_hold, read_if_equal, copy_read, replace, remove, rg_read}, one cell
    _c01_quick.append(run("reclaim", "proto_" + r, c=1, opt={"ops": 0xee}, weight=2.0 if st else 1.0))
    # focused: holders vs unlinkers with two preemptions
    _c01_quick.append(run("reclaim", "proto_" + r, c=1 if st else 2, opt={"ops": 0x62}, weight=1.0))
    _c01_thorough.append(run("reclaim", "proto_" + r, c=2, opt={"ops": 0xff}, weight=8.0 if st else 3.0))
    _c01_thorough.append(run("reclaim", "proto_" + r, c=2, opt={"ops": 0x66, "T": 3, "m": 1}, weight=2.0))
    _c01_thorough.append(run("reclaim", "proto_" + r, c=1, opt={"ops": 0x62, "cells": 2}, weight=1.0))
    if not st:
        _c01_thorough.append(run("reclaim", "proto_" + r, c=3, opt={"ops": 0x62}, weight=4.0))
PLAN["C01"] = {
    "quick": _c01_quick, "thorough": _c01_thorough, "budget_s": {"quick": 170, "thorough": 1500},
    "rule": "client programs: T threads x m operations over {acquire+deref, acquire+hold across later operations, acquire_if_equal, copy/assign then reset the original, "
            "move/swap, unlink by CAS + reclaim (replace/remove), two acquires inside a region_guard} on 1-2 shared concurrent_ptr cells, all assignments enumerated "
            "(symmetric duplicates and programs without an unlinker pruned); oracle: ledger (constructed/destroyed per node id) consulted at every dereference through a "
            "guard, payload integrity, heap lifetime shadow (no access to freed memory, quarantine: freed memory is never reused), race-with-deallocation check",
    "assumptions": ["reclaimers are instantiated with the most eager reclamation parameters (scan threshold 0, scan_frequency 0) so that a protocol error surfaces inside a short history"],
}
LEVEL_TEXT["C01"] = ("all interleavings with <= c preemptions (c=1..2 quick, 2..3 thorough) of all enumerated protocol-conforming 2-3 thread client programs, for 13 "
                     "reclaimer configurations; every dereference through a guard is checked against the ledger and the heap lifetime shadow")

TITLES["C02"] = "Retired objects are destroyed exactly once by their own deleter, never leaked"
_c02_quick, _c02_thorough = [], []
for r in RECL_ALL:
    st = r == "stamp"
    # updaters and holders, threads exiting at different operation boundaries (op `none`), census after flush
    _c02_quick.append(run("reclaim", "proto_" + r, c=1, opt={"ops": 0x162, "allow_update_only": 1}, weight=2.0 if st else 1.0))
    _c02_quick.append(run("reclaim", "proto_" + r, c=1, opt={"ops": 0x62, "allow_update_only": 1, "T": 3, "m": 1}, weight=1.0))
    _c02_thorough.append(run("reclaim", "proto_" + r, c=2, opt={"ops": 0x162, "allow_update_only": 1}, weight=4.0 if st else 2.0))
    _c02_thorough.append(run("reclaim", "proto_" + r, c=2, opt={"ops": 0x62, "allow_update_only": 1, "T": 3, "m": 1}, weight=2.0))
    _c02_thorough.append(run("reclaim", "proto_" + r, c=1, opt={"ops": 0x62, "allow_update_only": 1, "gens": 2, "m": 1}, weight=1.0))
PLAN["C02"] = {
    "quick": _c02_quick, "thorough": _c02_thorough, "budget_s": {"quick": 170, "thorough": 1500},
    "rule": "client programs as for C01 with updaters only / updaters + holders, threads that exit early (operation `none`), 2-3 threads and up to 2 thread "
            "generations; stateful deleter (carries the id of the node it belongs to; default_delete for lock_free_ref_count which accepts nothing else); after all "
            "threads exited T0 unlinks what is still published and performs a public-API flush (8 rounds: region_guard + retire of a fresh dummy); census: every "
            "retired node destroyed exactly once, by its own deleter instance, nothing destroyed unretired, nothing retired left undestroyed; heap shadow reports double free",
    "assumptions": ["leak freedom is checked at the quiescent end of finite histories after the flush; dummy nodes used by the flush itself are exempt from the leak census"],
}
LEVEL_TEXT["C02"] = ("all interleavings with <= c preemptions (1 quick, 2 thorough) of all enumerated retire/hold/exit programs for 13 reclaimer configurations, "
                     "including threads exiting with non-empty retire lists; exactly-once destruction by the right deleter and the end-of-history census are checked on every execution")

TITLES["C17"] = "Dynamic threads: bookkeeping is recycled; exited threads never block or leak"
_c17_quick, _c17_thorough = [], []
for r in RECL_ALL:
    st = r == "stamp"
    _c17_quick.append(run("reclaim", "proto_" + r, c=1, opt={"ops": 0x6a, "allow_update_only": 1, "gens": 2, "m": 1}, weight=2.0 if st else 1.0))
    _c17_quick.append(run("reclaim", "proto_" + r, c=1 if st else 2, opt={"ops": 0x62, "allow_update_only": 1, "gens": 3, "m": 1, "T": 1}, weight=1.0))
    _c17_thorough.append(run("reclaim", "proto_" + r, c=2, opt={"ops": 0x6a, "allow_update_only": 1, "gens": 2, "m": 1}, weight=3.0))
    _c17_thorough.append(run("reclaim", "proto_" + r, c=1, opt={"ops": 0x62, "allow_update_only": 1, "gens": 3, "m": 1}, weight=3.0))
    _c17_thorough.append(run("reclaim", "proto_" + r, c=1, opt={"ops": 0x62, "allow_update_only": 1, "gens": 2, "m": 2}, weight=3.0))
PLAN["C17"] = {
    "quick": _c17_quick, "thorough": _c17_thorough, "budget_s": {"quick": 170, "thorough": 1500},
    "rule": "G = 2..3 generations of T = 1..2 overlapping threads (fresh pthreads, thread_local reclaimer state constructed and destroyed per thread, destructors explored "
            "as part of the execution), each running an enumerated program of guarded reads / holds / unlink+reclaim; after every generation T0 flushes through the "
            "public API and checks (a) the C01/C02 oracles across record reuse, (b) the census: everything retired so far is destroyed although its retirer has exited, "
            "(c) live heap allocations not belonging to client nodes <= footprint of T0 + T x (measured footprint of one thread)",
    "assumptions": ["per-thread footprint is measured on T0 performing the same kinds of guard operations as the workers"],
}
LEVEL_TEXT["C17"] = ("all interleavings with <= c preemptions of all enumerated multi-generation thread programs (threads created, exiting and being replaced) for 13 "
                     "reclaimer configurations; bookkeeping footprint bound, conservation census and guard safety checked after every generation")
