"""Which explorations decide which property, per tier.  Pure data; read by ./check."""

TITLES = {}
PLAN = {}

RECL_ALL = ["hp", "hpd", "he", "hed", "qsbr", "ebr", "nebr", "debra", "gebr_lazy", "gebr_thr", "stamp", "lfrc", "lfrc_tl"]
RECL_QUICK = ["hp", "ebr", "stamp", "lfrc"]


def run(bin, test, c=2, **kw):
    d = {"bin": bin, "test": test, "c": c}
    d.update(kw)
    return d


# ------------------------------------------------------------------------------------------------- C04
TITLES["C04"] = "michael_scott, ramalhete and nikolaev queues are linearizable FIFO queues"
_q_variants = ["ms", "ram_e1p1", "ram_e2p0", "nik_e1p1", "nik_e2p0"]
_c04_quick = []
for q in _q_variants:
    for r in RECL_QUICK:
        _c04_quick.append(run("queues", "%s_%s" % (q, r), c=1 if r == "stamp" else 2, weight=1.0))
# element identity with move-only elements (seed C04c: a refused node-local push destroyed the element it was asked to hand back)
for t in ["nik_e1_up_hp", "ram_e1_up_hp", "ms_up_hp"]:
    _c04_quick.append(run("ownership", t, c=2, weight=0.7))
# three threads, one operation each, empty queue (seed C04d: a push overtaken by two pops in a row needs two poppers or three preemptions)
for q in _q_variants:
    _c04_quick.append(run("queues", "%s_hp" % q, c=2, opt={"T": 3, "m": 1, "prefill": 0}, weight=0.6))
_c04_quick.append(run("queues", "ram_e2p0_ebr", c=2, opt={"T": 3, "m": 1, "prefill": 0}, weight=0.6))
# sequential sweeps at node sizes 3..32 (several node hand-overs in a row; SCQ cache-line remapping starts at 8 entries)
_sw_fifo = ["ms_hp", "ram_e4_hp", "ram_e8_ebr", "ram_e3_hp", "nik_e4_hp", "nik_e8_ebr", "nik_e16_hp", "nik_e32_hp"]
for t in _sw_fifo:
    _c04_quick.append(run("sweep", t, c=0, opt={"maxn": 40, "laps": 3}, weight=0.1))
_c04_thorough = [run("sweep", t, c=0, opt={"maxn": 100, "laps": 4}, weight=0.2) for t in _sw_fifo]
for q in _q_variants:
    for r in RECL_ALL:
        _c04_thorough.append(run("queues", "%s_%s" % (q, r), c=2, weight=4.0 if r == "stamp" else 1.0))
    # three threads (two producers + consumer etc.), one operation each, c=2
    for r in ["hp", "ebr", "lfrc"]:
        _c04_thorough.append(run("queues", "%s_%s" % (q, r), c=2, opt={"T": 3, "m": 1, "prefill": 1}, weight=1.0))
        _c04_thorough.append(run("queues", "%s_%s" % (q, r), c=2, opt={"T": 3, "m": 1, "prefill": 0}, weight=1.0))
    _c04_thorough.append(run("queues", "%s_lfrc" % q, c=3, opt={"T": 3, "m": 1, "prefill": 0}, weight=4.0))
    # deeper preemption bound on the cheapest reclaimer
    _c04_thorough.append(run("queues", "%s_lfrc" % q, c=3, opt={"prefill": 0}, weight=6.0))
    # one popping entry point throughout (the default alternates try_pop(value_type&) and pop() -> std::optional)
    if q != "ms":
        _c04_thorough.append(run("queues", "%s_hp" % q, c=2, opt={"api": 0}, weight=1.0))
        _c04_thorough.append(run("queues", "%s_hp" % q, c=2, opt={"api": 1}, weight=1.0))
    # immediate address reuse (ABA hunting) with pointer-, era- and count-based protection
    for r in ["hp", "he", "lfrc", "ebr"]:
        _c04_thorough.append(run("queues", "%s_%s" % (q, r), c=2, heap="reuse", weight=1.0))
# four threads (the quantifier speaks of 2..4), one operation each
for q in ["ms", "ram_e1p1", "nik_e1p1"]:
    _c04_thorough.append(run("queues", "%s_hp" % q, c=1, opt={"T": 4, "m": 1, "prefill": 1}, weight=2.0))
    _c04_thorough.append(run("queues", "%s_ebr" % q, c=1, opt={"T": 4, "m": 1, "prefill": 0}, weight=2.0))
PLAN["C04"] = {
    "quick": _c04_quick,
    "thorough": _c04_thorough,
    "budget_s": {"quick": 180, "thorough": 1300},
    "rule": "programs: T threads x m operations over {push, try_pop / pop() alternating with the position in the program} (all assignments, thread-symmetric duplicates and pop-free programs pruned), "
            "0/1 prefilled elements, final drain by T0; node sizes entries_per_node 1|2, pop_retries 0|1; oracle: Wing-Gong linearizability against a "
            "sequential FIFO (std::deque-like) + heap lifetime shadow + happens-before race detector + solo-progress monitor",
    "assumptions": ["values are small distinct integers (raw-pointer queues carry them encoded in never dereferenced pointers)"],
}

LEVEL_TEXT = {}
NOT_APPLICABLE = {}
LEVEL_TEXT["C04"] = ("every interleaving with at most c preemptions (c=2 quick; up to 3 thorough) of every enumerated 2-3 thread push/try_pop program on the real "
                     "queues with node sizes 1-2 is executed and its history checked for linearizability against a FIFO, with use-after-free, race and "
                     "progress monitors armed; exhaustive within the stated bounds, nothing is sampled")

# ------------------------------------------------------------------------------------------------- C01 / C02 / C17
# reclaim.cpp op bits: 0 read, 1 read_hold, 2 read_if_equal, 3 copy_read, 4 move_read, 5 replace, 6 remove, 7 rg_read, 8 none
TITLES["C01"] = "Safe memory reclamation: no object is destroyed while a guard_ptr protects it"
_c01_quick, _c01_thorough = [], []
for r in RECL_ALL:
    st = r == "stamp"
    # all 2x2 programs over {read_hold, read_if_equal, copy_read, replace, remove, rg_read}, one cell
    _c01_quick.append(run("reclaim", "proto_" + r, c=1, opt={"ops": 0xee}, weight=2.0 if st else 1.0))
    # focused: holders vs unlinkers with two preemptions
    _c01_quick.append(run("reclaim", "proto_" + r, c=2 if r in ("hp", "he", "qsbr", "ebr", "debra", "gebr_thr", "lfrc") else 1, opt={"ops": 0x62}, weight=1.0))
    _c01_thorough.append(run("reclaim", "proto_" + r, c=2, opt={"ops": 0xff}, weight=8.0 if st else 3.0))
    _c01_thorough.append(run("reclaim", "proto_" + r, c=2, opt={"ops": 0x66, "T": 3, "m": 1}, weight=2.0))
    _c01_thorough.append(run("reclaim", "proto_" + r, c=1, opt={"ops": 0x62, "cells": 2}, weight=1.0))
    if not st:
        _c01_thorough.append(run("reclaim", "proto_" + r, c=3, opt={"ops": 0x62}, weight=4.0))
# guard copies against a concurrent hazard pointer scan need three preemptions (finding F-C01-1)
for r in ["hp", "hpd", "he", "lfrc"]:
    _c01_quick.append(run("reclaim", "proto_" + r, c=3, opt={"ops": 0x48, "m": 1}, weight=1.5))
for r in RECL_ALL:
    if r != "stamp":
        _c01_thorough.append(run("reclaim", "proto_" + r, c=3, opt={"ops": 0x68, "m": 1}, weight=2))
    _c01_thorough.append(run("reclaim", "proto_" + r, c=2 if r == "stamp" else 3, opt={"fixed": 1, "cells": 2}, weight=2))
# adversarial family "recycle behind a reader's back" (seed C01: lost reference count increment with type-stable memory)
for r in ["lfrc_tl", "lfrc", "hp", "qsbr", "ebr"]:
    _c01_quick.append(run("reclaim", "proto_" + r, c=3, opt={"fixed": 1, "cells": 2}, weight=1.0))
# adversarial family "ABA under a conditional acquire" (finding F-C01-2: hazard_eras::acquire_if_equal): immediate address reuse
for r in ["he", "hed"]:
    _c01_quick.append(run("reclaim", "proto_" + r, c=2, heap="reuse", opt={"fixed": 2, "T": 3, "m": 2}, weight=1.0))
for r in RECL_ALL:
    _c01_thorough.append(run("reclaim", "proto_" + r, c=2, heap="reuse", opt={"fixed": 2, "T": 3, "m": 2}, weight=1.0))
    if r != "stamp":
        _c01_thorough.append(run("reclaim", "proto_" + r, c=2, heap="reuse", opt={"ops": 0x24, "T": 3, "m": 2}, weight=3.0))
_c01_thorough.append(run("reclaim", "proto_he", c=3, heap="reuse", opt={"fixed": 2, "T": 3, "m": 2}, weight=6.0))
_c01_thorough.append(run("reclaim", "proto_he", c=2, d=1, mode="wmm", heap="reuse", opt={"fixed": 2, "T": 3, "m": 2}, weight=2.0))
# less eager parameters (scan_frequency 1..3, scan threshold B = 2, scan n_threads<1>, abandon threshold 2, eager region extension): the counters that delay
# a scan or an epoch advance are part of the protocol too
RECL_LAZY = ["ebr_f2", "debra_f1", "gebr_f3", "hp_b2", "hed_b2"]
# guard_ptr and region_guard lifetimes that are not nested (seed C01d: with region_extension eager / lazy the end of a region_guard left the critical region although a
# guard_ptr was still alive): family "a guard that outlives a region_guard" against a writer that unlinks, retires and enters three more critical regions; all
# one-thread programs of four operations over {read, replace, remove, rg_hold}; rg_hold in the two-thread alphabet
for r in RECL_ALL + RECL_LAZY:
    _c01_quick.append(run("reclaim", "proto_" + r, c=1, opt={"fixed": 4, "m": 4}, weight=0.15))
    _c01_quick.append(run("reclaim", "proto_" + r, c=0, opt={"ops": 0x261, "T": 1, "m": 4}, weight=0.15))
    _c01_thorough.append(run("reclaim", "proto_" + r, c=2, opt={"fixed": 4, "m": 4}, weight=1))
    _c01_thorough.append(run("reclaim", "proto_" + r, c=1 if r == "stamp" else 2, opt={"ops": 0x262}, weight=2))
    _c01_thorough.append(run("reclaim", "proto_" + r, c=0, opt={"ops": 0x2e3, "T": 1, "m": 5}, weight=0.5))
for r in ["nebr", "gebr_lazy", "gebr_thr", "ebr", "hp", "stamp"]:
    _c01_quick.append(run("reclaim", "proto_" + r, c=1, opt={"ops": 0x260}, weight=0.4))
for r in ["hp", "he", "ebr", "qsbr", "lfrc", "debra"]:  # four threads, one operation each
    _c01_thorough.append(run("reclaim", "proto_" + r, c=1, opt={"ops": 0x62, "T": 4, "m": 1}, weight=2))
for r in RECL_LAZY:
    _c01_quick.append(run("reclaim", "proto_" + r, c=1, opt={"ops": 0xee}, weight=0.5))
    _c01_thorough.append(run("reclaim", "proto_" + r, c=2, opt={"ops": 0xee}, weight=2))
    _c01_thorough.append(run("reclaim", "proto_" + r, c=2, opt={"ops": 0x62, "T": 3, "m": 1}, weight=1))
# the cheap targeted families first: they finish within seconds and must not depend on what the broad runs leave of the budget on a loaded machine
for _r in _c01_quick:
    if _r.get("opt", {}).get("fixed") == 4 or _r.get("opt", {}).get("T") == 1 or _r.get("opt", {}).get("ops") == 0x260:
        _r["first"] = 1
PLAN["C01"] = {
    "quick": _c01_quick, "thorough": _c01_thorough, "budget_s": {"quick": 190, "thorough": 1300},
    "rule": "client programs: T threads x m operations over {acquire+deref, acquire+hold across later operations, acquire_if_equal, copy/assign then reset the original, "
            "move/swap, unlink by CAS + reclaim (replace/remove), two acquires inside a region_guard} on 1-2 shared concurrent_ptr cells, all assignments enumerated "
            "(symmetric duplicates and programs without an unlinker pruned); oracle: ledger (constructed/destroyed per node id) consulted at every dereference through a "
            "guard, payload integrity, heap lifetime shadow (no access to freed memory, quarantine: freed memory is never reused), race-with-deallocation check; "
            "in addition fixed adversarial families: recycle-behind-a-reader (two cells) and ABA-under-acquire_if_equal (three threads, heap in immediate-reuse mode "
            "so that a new node gets the address of the node just reclaimed)",
    "assumptions": ["reclaimers are instantiated with the most eager reclamation parameters (scan threshold 0, scan_frequency 0) so that a protocol error surfaces inside a short history; "
                    "five further configurations use delayed scans (scan_frequency 1..3, threshold B = 2, n_threads<1>, abandon threshold 2, eager region extension)"],
}
LEVEL_TEXT["C01"] = ("all interleavings with <= c preemptions (c=1..2 quick, 2..3 thorough) of all enumerated protocol-conforming 2-3 thread client programs, for 13 "
                     "reclaimer configurations; every dereference through a guard is checked against the ledger and the heap lifetime shadow")

TITLES["C02"] = "Retired objects are destroyed exactly once by their own deleter, never leaked"
_c02_quick, _c02_thorough = [], []
for r in RECL_ALL:
    st = r == "stamp"
    # updaters and holders, threads exiting at different operation boundaries (op `none`), census after flush
    _c02_quick.append(run("reclaim", "proto_" + r, c=1, opt={"ops": 0x162, "allow_update_only": 1}, weight=2.0 if st else 1.0))
    _c02_quick.append(run("reclaim", "proto_" + r, c=1, opt={"ops": 0x62, "allow_update_only": 1, "T": 3, "m": 1}, weight=1.0))
    _c02_thorough.append(run("reclaim", "proto_" + r, c=2, opt={"ops": 0x162, "allow_update_only": 1}, weight=4.0 if st else 2.0))
    _c02_thorough.append(run("reclaim", "proto_" + r, c=2, opt={"ops": 0x62, "allow_update_only": 1, "T": 3, "m": 1}, weight=2.0))
    _c02_thorough.append(run("reclaim", "proto_" + r, c=1, opt={"ops": 0x62, "allow_update_only": 1, "gens": 2, "m": 1}, weight=1.0))
for r in ["hp", "he", "qsbr", "ebr", "nebr", "debra", "gebr_lazy", "gebr_thr", "lfrc"]:
    _c02_quick.append(run("reclaim", "proto_" + r, c=2, opt={"ops": 0x62, "allow_update_only": 1}, weight=1.5))
for r in RECL_LAZY:
    _c02_quick.append(run("reclaim", "proto_" + r, c=1, opt={"ops": 0x162, "allow_update_only": 1, "flush": 80}, weight=0.5))
    _c02_thorough.append(run("reclaim", "proto_" + r, c=2, opt={"ops": 0x162, "allow_update_only": 1, "flush": 80}, weight=1.5))
    _c02_thorough.append(run("reclaim", "proto_" + r, c=2, opt={"ops": 0x62, "allow_update_only": 1, "T": 3, "m": 1, "flush": 100}, weight=1.5))
PLAN["C02"] = {
    "quick": _c02_quick, "thorough": _c02_thorough, "budget_s": {"quick": 170, "thorough": 1100},
    "rule": "client programs as for C01 with updaters only / updaters + holders, threads that exit early (operation `none`), 2-3 threads and up to 2 thread "
            "generations; stateful deleter (carries the id of the node it belongs to; default_delete for lock_free_ref_count which accepts nothing else); after all "
            "threads exited T0 unlinks what is still published and performs a public-API flush (8 rounds: region_guard + retire of a fresh dummy); census: every "
            "retired node destroyed exactly once, by its own deleter instance, nothing destroyed unretired, nothing retired left undestroyed; heap shadow reports double free",
    "assumptions": ["leak freedom is checked at the quiescent end of finite histories after the flush; dummy nodes used by the flush itself are exempt from the leak census"],
}
LEVEL_TEXT["C02"] = ("all interleavings with <= c preemptions (1 quick, 2 thorough) of all enumerated retire/hold/exit programs for 13 reclaimer configurations, "
                     "including threads exiting with non-empty retire lists; exactly-once destruction by the right deleter and the end-of-history census are checked on every execution")

TITLES["C17"] = "Dynamic threads: bookkeeping is recycled; exited threads never block or leak"
_c17_quick, _c17_thorough = [], []
for r in RECL_ALL:
    st = r == "stamp"
    _c17_quick.append(run("reclaim", "proto_" + r, c=1, opt={"ops": 0x6a, "allow_update_only": 1, "gens": 2, "m": 1}, weight=2.0 if st else 1.0))
    _c17_quick.append(run("reclaim", "proto_" + r, c=1 if st else 2, opt={"ops": 0x62, "allow_update_only": 1, "gens": 3, "m": 1, "T": 1}, weight=1.0))
    _c17_thorough.append(run("reclaim", "proto_" + r, c=2, opt={"ops": 0x6a, "allow_update_only": 1, "gens": 2, "m": 1}, weight=3.0))
    _c17_thorough.append(run("reclaim", "proto_" + r, c=1, opt={"ops": 0x62, "allow_update_only": 1, "gens": 3, "m": 1}, weight=3.0))
    _c17_thorough.append(run("reclaim", "proto_" + r, c=1, opt={"ops": 0x62, "allow_update_only": 1, "gens": 2, "m": 2}, weight=3.0))
# a thread exits (abandoning what it retired) while another thread is in the middle of a scan and a third one holds a guard (seed C17)
for r in ["hp", "hpd", "he", "hed"]:
    _c17_quick.append(run("reclaim", "proto_" + r, c=2, opt={"ops": 0x22, "T": 3, "m": 1}, weight=1.0))
# the same shape for the epoch based schemes (finding F-C01-3: orphans of a thread that exits while another thread advances the epoch)
for r in ["ebr", "nebr", "debra", "gebr_lazy"]:
    _c17_quick.append(run("reclaim", "proto_" + r, c=2, opt={"ops": 0x42, "T": 3, "m": 1}, weight=1.0))
# backlog bound: scan threshold proportional to the hazard pointers / eras of the threads that are ALIVE (A = 1, K = 3): after the generations a lone
# thread may accumulate at most A*K*(T+1)+B+1 = 10 unprotected retired nodes before the first one is destroyed (seed C17b: counter never decremented on exit)
for r in ["hp_a1", "he_a1"]:
    _c17_quick.append(run("reclaim", "proto_" + r, c=1, opt={"ops": 0x62, "allow_update_only": 1, "gens": 2, "m": 1, "backlog": 10}, weight=0.5))
    _c17_thorough.append(run("reclaim", "proto_" + r, c=2, opt={"ops": 0x62, "allow_update_only": 1, "gens": 2, "m": 1, "backlog": 10}, weight=2))
    _c17_thorough.append(run("reclaim", "proto_" + r, c=1, opt={"ops": 0x62, "allow_update_only": 1, "gens": 3, "m": 1, "backlog": 10}, weight=2))
for r in ["hpd_a1", "hed_a1"]:
    _c17_thorough.append(run("reclaim", "proto_" + r, c=1, opt={"ops": 0x62, "allow_update_only": 1, "gens": 3, "m": 1, "backlog": 8}, weight=2))
for r in RECL_ALL:
    _c17_thorough.append(run("reclaim", "proto_" + r, c=2, opt={"ops": 0x62, "T": 3, "m": 1}, weight=2.0))
for r in ["hp", "hpd", "he", "hed", "lfrc"]:
    _c17_thorough.append(run("reclaim", "proto_" + r, c=3, opt={"ops": 0x22, "T": 3, "m": 1}, weight=4.0))
# control block reuse with many guards (dynamic strategies: additional hazard pointer / era blocks re-initialised by the adopting thread; seed C17c)
for t in ["hpd_k1", "hpd_k2", "hed_k1", "hed_k2", "ebr", "lfrc"]:
    _c17_quick.append(run("guards", "reuse_" + t, c=0, opt={"gens": 3, "maxn": 5}, weight=0.3))
    _c17_thorough.append(run("guards", "reuse_" + t, c=0, opt={"gens": 3, "maxn": 9}, weight=1))
# many guards in pairwise different eras, each on a node born in its guard's era, retired through a copy while the guard holds it (seed C18d: the second
# growth of the dynamic hazard era pool re-initialised the slots of the first; guards of one era share a slot, so the plain family never grew the pool)
for t in ["hed_k1", "hed_k2", "hpd_k1", "hpd_k2"]:
    _c17_quick.append(run("guards", "reuse_" + t, c=0, opt={"gens": 2, "maxn": 9, "eras": 1}, weight=0.3))
    _c17_thorough.append(run("guards", "reuse_" + t, c=0, opt={"gens": 3, "maxn": 9, "eras": 1}, weight=1))
for r in RECL_LAZY:
    _c17_quick.append(run("reclaim", "proto_" + r, c=1, opt={"ops": 0x62, "allow_update_only": 1, "gens": 2, "m": 1, "flush": 80}, weight=0.5))
    _c17_thorough.append(run("reclaim", "proto_" + r, c=2, opt={"ops": 0x6a, "allow_update_only": 1, "gens": 2, "m": 1, "flush": 80}, weight=1.5))
# a record is adopted next to a long reader, in every phase of the epoch / era arithmetic (seed C17d: the adopting thread kept a stale epoch index
# when the adopted record already carried the current epoch - only an epoch that is 2 modulo 3 exposes it): reader holding its guard | thread that
# reads and exits | thread that starts afterwards, unlinks and retires what the reader holds and passes through m - 1 further critical regions;
# T0 first passes through 0 .. phases-1 critical regions (DATA choice)
for r in ["ebr", "nebr", "debra", "gebr_lazy", "gebr_thr", "qsbr", "hp", "hpd", "he", "hed", "lfrc", "stamp"]:
    _c17_quick.append(run("reclaim", "proto_" + r, c=1, opt={"fixed": 3, "T": 3, "m": 3, "cells": 2, "phases": 3 if r == "stamp" else 6}, weight=0.3))
    _c17_thorough.append(run("reclaim", "proto_" + r, c=2, opt={"fixed": 3, "T": 3, "m": 3, "cells": 2, "phases": 3 if r == "stamp" else 6}, weight=1.5))
for r in ["ebr_f2", "debra_f1", "gebr_f3"]:
    _c17_quick.append(run("reclaim", "proto_" + r, c=1, opt={"fixed": 3, "T": 3, "m": 5, "cells": 2, "phases": 13, "flush": 120}, weight=0.3))
    _c17_thorough.append(run("reclaim", "proto_" + r, c=2, opt={"fixed": 3, "T": 3, "m": 5, "cells": 2, "phases": 13, "flush": 120}, weight=1.5))
# generations in every phase of the epoch arithmetic (thorough): all programs of the generation families, started after 0..2 epochs
for r in ["ebr", "nebr", "debra", "gebr_lazy", "gebr_thr", "qsbr", "he"]:
    _c17_thorough.append(run("reclaim", "proto_" + r, c=1, opt={"ops": 0x62, "allow_update_only": 1, "gens": 2, "m": 1, "phases": 3}, weight=2.0))
    _c01_thorough.append(run("reclaim", "proto_" + r, c=2, opt={"ops": 0x62, "phases": 3}, weight=2.0))
for r in ["ebr_f2", "debra", "ebr"]:
    _c01_quick.append(run("reclaim", "proto_" + r, c=1, opt={"fixed": 3, "T": 3, "m": 5 if r == "ebr_f2" else 3, "cells": 2, "phases": 13 if r == "ebr_f2" else 6, "flush": 120 if r == "ebr_f2" else 30}, weight=0.2))
PLAN["C17"] = {
    "quick": _c17_quick, "thorough": _c17_thorough, "budget_s": {"quick": 170, "thorough": 1100},
    "rule": "G = 2..3 generations of T = 1..2 overlapping threads (fresh pthreads, thread_local reclaimer state constructed and destroyed per thread, destructors explored "
            "as part of the execution), each running an enumerated program of guarded reads / holds / unlink+reclaim; after every generation T0 flushes through the "
            "public API and checks (a) the C01/C02 oracles across record reuse, (b) the census: everything retired so far is destroyed although its retirer has exited, "
            "(c) live heap allocations not belonging to client nodes <= footprint of T0 + T x (measured footprint of one thread); in addition three concurrently live threads "
            "(holder, two unlinkers) with one operation each, so that a thread exits - abandoning what it retired - while another thread is inside a scan; (d) backlog bound for "
            "hazard pointers / eras with a scan threshold proportional to the live slots (A=1): after all generations a lone thread retires unprotected nodes one at a time and "
            "the first destruction must come within the bound given by the threads alive at a time; (e) family 'a record is adopted next to a long reader' started "
            "after 0..5 (0..12) critical regions of T0, i.e. in every phase of the epoch / era arithmetic",
    "assumptions": ["per-thread footprint is measured on T0 performing the same kinds of guard operations as the workers"],
}
LEVEL_TEXT["C17"] = ("all interleavings with <= c preemptions of all enumerated multi-generation thread programs (threads created, exiting and being replaced) for 13 "
                     "reclaimer configurations; bookkeeping footprint bound, conservation census and guard safety checked after every generation")

# ------------------------------------------------------------------------------------------------- C05
TITLES["C05"] = "vyukov_bounded and nikolaev_bounded queues are linearizable bounded FIFOs"
PLAN["C05"] = {
    "quick": [run("bounded", "vyukov", c=2, opt={"cap": 2}), run("bounded", "vyukov", c=1, opt={"cap": 4, "wrap": 5}),
              run("bounded", "nikolaev", c=2, opt={"cap": 1}), run("bounded", "nikolaev", c=2, opt={"cap": 2}),
              run("bounded", "nikolaev", c=2, opt={"cap": 3, "wrap": 9}), run("bounded", "nikolaev_p0", c=2, opt={"cap": 2}),
              run("bounded", "nikolaev", c=2, opt={"cap": 2, "fixed": 1, "prefill": 0}), run("bounded", "nikolaev_p0", c=2, opt={"cap": 2, "fixed": 1, "prefill": 0}),
              run("bounded", "vyukov", c=2, opt={"cap": 2, "fixed": 1, "prefill": 0}),
              # policy-dispatched entry points try_push / try_pop / pop and pop_strong / pop_weak, default_to_weak false and true
              run("bounded", "vyukov_api", c=2, opt={"cap": 2}, weight=0.7), run("bounded", "vyukov_dw", c=1, opt={"cap": 2}, weight=0.4),
              # sequential sweeps: requested capacities 1..40 (rounded up; SCQ cache-line remapping from 8), ring sizes 2..64, three laps
              run("sweep", "nb", c=0, opt={"maxn": 40, "laps": 3, "maxcap": 40}, weight=0.1), run("sweep", "nb_p0", c=0, opt={"maxn": 40, "laps": 3, "maxcap": 40}, weight=0.1),
              run("sweep", "vb", c=0, opt={"maxn": 70, "laps": 3}, weight=0.1),
              # element identity with owning / non-trivial element types (seed C05c: slot handed back before the moved-from element is destroyed)
              run("ownership", "nb_c1_up", c=2, weight=0.5), run("ownership", "nb_c2_up", c=2, weight=0.5), run("ownership", "nb_c2_val", c=2, weight=0.5),
              run("ownership", "vb_s2_up", c=2, weight=0.3), run("ownership", "vb_s2_val", c=2, weight=0.3),
              # concurrent runs on a ring with remapped indexes (capacity 8)
              run("bounded", "nikolaev", c=1, opt={"cap": 8, "prefill": 7}, weight=0.3), run("bounded", "nikolaev", c=1, opt={"cap": 8, "prefill": 0, "wrap": 9}, weight=0.3)],
    "thorough": [run("ownership", t, c=3, weight=2) for t in ["nb_c1_up", "nb_c2_up", "nb_c2_val", "vb_s2_up", "vb_s2_val"]] + [run("ownership", "nb_c2_up", c=2, opt={"T": 3, "m": 1, "prefill": 1})] + [
                 run("sweep", "nb", c=0, opt={"maxn": 70, "laps": 4, "maxcap": 130}, weight=0.3), run("sweep", "nb_p0", c=0, opt={"maxn": 70, "laps": 4, "maxcap": 130}, weight=0.3),
                 run("sweep", "vb", c=0, opt={"maxn": 140, "laps": 4, "maxlog": 6}, weight=0.2),
                 run("bounded", "nikolaev", c=2, opt={"cap": 8, "prefill": 7}), run("bounded", "nikolaev", c=2, opt={"cap": 8, "prefill": 0, "wrap": 9}), run("bounded", "nikolaev", c=2, opt={"cap": 16, "prefill": 15, "wrap": 3}),
                 run("bounded", "vyukov_api", c=2, opt={"cap": 2}), run("bounded", "vyukov_dw", c=2, opt={"cap": 2}), run("bounded", "vyukov_api", c=2, opt={"cap": 4, "wrap": 5}),
                 run("bounded", "vyukov_dw", c=2, opt={"cap": 2, "T": 3, "m": 1, "prefill": 1}),
                 run("bounded", "vyukov", c=3, opt={"cap": 2}, weight=6), run("bounded", "vyukov", c=2, opt={"cap": 4, "wrap": 9}),
                 run("bounded", "vyukov", c=2, opt={"cap": 2, "T": 3, "m": 1, "prefill": 1}),
                 run("bounded", "vyukov", c=1, opt={"cap": 2, "T": 2, "m": 3, "prefill": 1}, weight=3),
                 run("bounded", "nikolaev", c=3, opt={"cap": 1}, weight=3), run("bounded", "nikolaev", c=3, opt={"cap": 2}, weight=6),
                 run("bounded", "nikolaev", c=2, opt={"cap": 3, "wrap": 9}), run("bounded", "nikolaev", c=2, opt={"cap": 4, "wrap": 17}),
                 run("bounded", "nikolaev_p0", c=3, opt={"cap": 2}, weight=4), run("bounded", "nikolaev", c=3, opt={"cap": 2, "fixed": 1, "prefill": 0}, weight=4),
                 run("bounded", "nikolaev", c=3, opt={"cap": 4, "fixed": 1, "prefill": 1}, weight=4), run("bounded", "vyukov", c=3, opt={"cap": 2, "fixed": 1, "prefill": 0}, weight=4), run("bounded", "nikolaev_p0", c=2, opt={"cap": 1}),
                 run("bounded", "nikolaev", c=2, opt={"cap": 2, "T": 3, "m": 1}), run("bounded", "nikolaev", c=2, opt={"cap": 2, "T": 2, "m": 3}, weight=4),
                 run("bounded", "vyukov", c=2, opt={"cap": 2}, mode="wmm", d=1, weight=4), run("bounded", "nikolaev", c=2, opt={"cap": 2}, mode="wmm", d=1, weight=4),
                 run("bounded", "nikolaev", c=1, opt={"cap": 2, "T": 4, "m": 1}, weight=2), run("bounded", "vyukov", c=1, opt={"cap": 2, "T": 4, "m": 1}, weight=2)],
    "budget_s": {"quick": 120, "thorough": 900},
    "rule": "programs: T threads x m operations over {try_push_strong, try_pop_strong, try_push_weak, try_pop_weak} (vyukov; the runs vyukov_api / vyukov_dw go through the "
            "policy-dispatched try_push / try_pop / pop and through pop_strong / pop_weak with default_to_weak false / true) / {try_push, try_pop alternating with pop()} (nikolaev), all "
            "assignments, prefill 0..capacity (enumerated), optional wrap-around prefix (push/pop pairs advancing the ring indexes), an adversarial fixed family "
            "(one pusher | one thread pushing four times, lapping the index ring | one popper), at quiescence pushes until the queue reports full (capacity "
            "conservation) and a final drain; oracle: Wing-Gong "
            "linearizability against a bounded FIFO in which weak operations may fail spuriously but never succeed wrongly and (nikolaev) a push may fail when "
            "size + #overlapping operations >= capacity; capacity() must be the next power of two",
    "assumptions": [],
}
LEVEL_TEXT["C05"] = ("all interleavings with <= c preemptions (2 quick, up to 3 thorough) of all enumerated 2-3 thread programs mixing strong and weak operations on rings of "
                     "capacity 1..4 after up to several wrap-arounds; every history is checked for linearizability against a bounded FIFO with exactly the slack the property grants")

# ------------------------------------------------------------------------------------------------- C06
TITLES["C06"] = "Kirsch k-FIFO queues conserve elements with at most k-1 overtaking"
_c06_quick = [
    run("kfifo", "kb", c=2, r=1, opt={"k": 2, "segs": 2}, weight=3), run("kfifo", "kb", c=2, opt={"k": 1, "segs": 1}), run("kfifo", "kb", c=2, opt={"k": 1, "segs": 2}),
    run("kfifo", "kb", c=1, r=1, opt={"k": 2, "segs": 3}), run("kfifo", "kb", c=1, r=1, opt={"k": 3, "segs": 1}),
    run("kfifo", "kb", c=0, r=2, opt={"T": 1, "m": 6, "k": 2, "segs": 2, "prefill": 0}), run("kfifo", "kb", c=0, r=2, opt={"T": 1, "m": 6, "k": 2, "segs": 3, "prefill": 0}),
    run("kfifo", "kf_hp", c=1, r=1, opt={"k": 2}), run("kfifo", "kf_ebr", c=1, r=1, opt={"k": 2}), run("kfifo", "kf_stamp", c=1, r=0, opt={"k": 2}),
    run("kfifo", "kf_hp", c=2, opt={"k": 1}), run("kfifo", "kf_hp", c=0, r=2, opt={"T": 1, "m": 6, "k": 2, "prefill": 0}),
    # two slots per segment, two preemptions (seed C06e: an insert committed into a segment that advance_head has unlinked but not yet flagged)
    run("kfifo", "kf_hp", c=2, opt={"k": 2}, weight=1.2, first=1), run("kfifo", "kf_ebr", c=2, opt={"k": 2}, weight=1.2, first=1),
    # k that is not a power of two (seed C06c: slot scan with a mask instead of a modulo reaches only some of the k slots)
    run("kfifo", "kb", c=0, r=1, opt={"T": 1, "m": 8, "k": 3, "segs": 3, "prefill": 0}, weight=0.5), run("kfifo", "kb", c=0, r=1, opt={"T": 1, "m": 8, "k": 5, "segs": 2, "prefill": 0}, weight=0.5),
    run("kfifo", "kb", c=0, r=2, opt={"T": 1, "m": 8, "k": 3, "segs": 2, "prefill": 0}, weight=0.5), run("kfifo", "kf_hp", c=0, r=1, opt={"T": 1, "m": 8, "k": 3, "prefill": 0}, weight=0.5),
    # pusher | popper | popper (finding F-C06-3: committed() with a stale tail)
    run("kfifo", "kb", c=2, r=1, opt={"k": 2, "segs": 2, "T": 3, "m": 1}, weight=3),
    # three segments, three threads x two operations: reaches known finding F-C06-4 (hole left by a withdrawn tentative insert)
    run("kfifo", "kb", c=2, opt={"k": 1, "segs": 3, "T": 3, "m": 2, "prefill": 0}, weight=3),
    run("kfifo", "kb_boundary", c=0, horizon=16000000, wall=240, opt={"segs": 65535, "fill": 65535, "ops": 70000}),
    run("kfifo", "kb_boundary", c=0, horizon=16000000, wall=240, opt={"segs": 65536, "fill": 65536, "ops": 70000}),
    run("kfifo", "kb_boundary", c=0, horizon=16000000, wall=240, opt={"segs": 65537, "fill": 65537, "ops": 70000}),
    run("kfifo", "kb_boundary", c=0, horizon=16000000, wall=240, opt={"segs": 70000, "fill": 3, "ops": 150000}),
]
# extreme constructor arguments (seed C06d: range test on a wrapped product)
_c06_quick.append(run("kfifo", "kb_ctor", c=0, weight=0.05))
# sequential sweeps: k 1..5 x segments 1..5, batches of up to 40, three laps; with every start index 0 and with one deviating start index
_c06_quick += [run("sweep", "kb", c=0, r=0, opt={"maxn": 40, "laps": 3}, weight=0.1), run("sweep", "kf_hp", c=0, r=0, opt={"maxn": 40, "laps": 3}, weight=0.1),
               run("sweep", "kf_ebr", c=0, r=0, opt={"maxn": 40, "laps": 3}, weight=0.1),
               run("sweep", "kb", c=0, r=1, opt={"maxn": 7, "laps": 2, "maxk": 3, "maxsegs": 3}, weight=0.3), run("sweep", "kf_hp", c=0, r=1, opt={"maxn": 7, "laps": 2, "maxk": 3}, weight=0.3)]
_c06_thorough = [
    run("kfifo", "kb_ctor", c=0, weight=0.05), run("kfifo", "kb", c=1, r=1, opt={"k": 2, "segs": 2, "T": 4, "m": 1}, weight=2), run("kfifo", "kf_hp", c=1, opt={"k": 2, "T": 4, "m": 1}, weight=2),
    run("sweep", "kb", c=0, r=0, opt={"maxn": 100, "laps": 4, "maxk": 7, "maxsegs": 7}, weight=0.3), run("sweep", "kf_hp", c=0, r=0, opt={"maxn": 100, "laps": 4, "maxk": 7}, weight=0.3),
    run("sweep", "kb", c=0, r=1, opt={"maxn": 30, "laps": 2}, weight=2), run("sweep", "kf_hp", c=0, r=1, opt={"maxn": 30, "laps": 2}, weight=2), run("sweep", "kf_ebr", c=0, r=1, opt={"maxn": 20, "laps": 2}, weight=1),
    run("kfifo", "kb", c=3, r=1, opt={"k": 2, "segs": 2, "prefill": 1}, weight=8), run("kfifo", "kb", c=2, r=2, opt={"k": 2, "segs": 2}, weight=3),
    run("kfifo", "kb", c=3, opt={"k": 1, "segs": 1}, weight=2), run("kfifo", "kb", c=3, opt={"k": 1, "segs": 2}, weight=2),
    run("kfifo", "kb", c=2, r=1, opt={"k": 2, "segs": 3}), run("kfifo", "kb", c=2, r=1, opt={"k": 3, "segs": 2}),
    run("kfifo", "kb", c=2, r=1, opt={"k": 2, "segs": 2, "T": 3, "m": 1}), run("kfifo", "kb", c=0, r=3, opt={"T": 1, "m": 8, "k": 2, "segs": 2, "prefill": 0}),
    run("kfifo", "kb", c=0, r=2, opt={"T": 1, "m": 8, "k": 3, "segs": 2, "prefill": 0}),
    run("kfifo", "kb_boundary", c=0, horizon=16000000, wall=240, opt={"segs": 65537, "fill": 65537, "ops": 70000}),
    run("kfifo", "kb_boundary", c=0, horizon=16000000, wall=240, opt={"k": 2, "segs": 32769, "fill": 65538, "ops": 70000}),
    run("kfifo", "kb_boundary", c=0, horizon=32000000, wall=480, opt={"segs": 131073, "fill": 131073, "ops": 140000}),
] + [run("kfifo", "kf_" + r, c=2, r=1, opt={"k": 2}, weight=6) for r in ["hp", "hpd", "he", "qsbr", "ebr", "nebr", "debra"]] + [
    run("kfifo", "kf_stamp", c=1, r=1, opt={"k": 2}, weight=2), run("kfifo", "kf_hp", c=3, opt={"k": 1, "prefill": 0}, weight=6),
    run("kfifo", "kf_hp", c=0, r=3, opt={"T": 1, "m": 8, "k": 2, "prefill": 0}),
] + [run("kfifo", "kb", c=2, opt={"k": 1, "segs": 3, "T": 3, "m": 2, "prefill": 0}, weight=3), run("kfifo", "kb", c=2, r=1, opt={"k": 2, "segs": 3, "T": 3, "m": 2, "prefill": 0}, weight=6),
     run("kfifo", "kb", c=0, r=2, opt={"T": 1, "m": 8, "k": 3, "segs": 3, "prefill": 0}), run("kfifo", "kb", c=0, r=1, opt={"T": 1, "m": 8, "k": 5, "segs": 2, "prefill": 0}),
     run("kfifo", "kb", c=1, r=1, opt={"k": 3, "segs": 3}, weight=2)
] + [run("kfifo", "kf_" + r, c=2, r=1, heap="reuse", opt={"k": 2}, weight=3) for r in ["hp", "he", "ebr"]] + [run("kfifo", "kf_" + r, c=2, heap="reuse", opt={"k": 1, "prefill": 0}, weight=2) for r in ["hp", "he"]]
PLAN["C06"] = {
    "quick": _c06_quick, "thorough": _c06_thorough, "budget_s": {"quick": 150, "thorough": 1200},
    "rule": "programs: T threads x m operations over {push/try_push, try_pop}, all assignments, prefill 0..2, final drain; k in 1..3, segments 1..3; utils::random() "
            "(hook XENIUM_VERIF) is a recorded choice over [0,k): default 0, r deviations enumerated; sequential runs: all operation sequences of depth 6..8; boundary "
            "runs: one thread fills and cycles rings of k*segments = 2^16-1, 2^16, 2^16+1, 70000, 2^17+1 slots; oracle: Wing-Gong linearizability against the k-relaxed "
            "FIFO exactly as C06 words it (pop returns one of the k oldest; 'empty' only with < k stored and an overlapping operation, or truly empty; bounded push "
            "rejected only with >= (segments-1)*k+1 stored) + progress monitor",
    "assumptions": ["values are small distinct integers encoded in never dereferenced pointers"],
}
LEVEL_TEXT["C06"] = ("all interleavings with <= c preemptions and <= r non-default random start indexes of all enumerated 2-3 thread programs, all sequential operation "
                     "sequences up to depth 6-8, and complete sequential laps around rings below, at and above 2^16 slots; each history checked against the k-relaxed FIFO")

# ------------------------------------------------------------------------------------------------- C07
TITLES["C07"] = "Queues own their elements: each value is moved out or destroyed exactly once"
_own_tests = ["ms_up_hp", "ms_up_ebr", "ms_up_lfrc", "ms_val_hp", "ms_raw_hp", "ram_e1_up_hp", "ram_e2_up_hp", "ram_e2_up_ebr", "ram_e2_up_lfrc", "ram_e2_raw_hp",
              "nik_e1_up_hp", "nik_e2_up_ebr", "nik_e2_val_hp", "nik_e1_val_lfrc", "kf_k1_up_hp", "kf_k2_up_hp", "kf_k2_up_ebr", "kf_k2_raw_hp",
              "kb_k1s2_up", "kb_k2s2_up", "kb_k1s1_up", "kb_k2s2_raw", "nb_c1_up", "nb_c2_up", "nb_c2_val", "vb_s2_up", "vb_s2_val", "vb_s4_up"]
_c07_quick, _c07_thorough = [], []
for t in _own_tests:
    _c07_quick.append(run("ownership", t, c=1, weight=1))
    _c07_quick.append(run("ownership", t, c=0, opt={"T": 1, "m": 6}, weight=0.3))
    _c07_thorough.append(run("ownership", t, c=2, weight=2))
    _c07_thorough.append(run("ownership", t, c=2, opt={"T": 3, "m": 1, "prefill": 1}, weight=1))
    _c07_thorough.append(run("ownership", t, c=0, opt={"T": 1, "m": 8}, weight=0.3))
for t in ["ram_e1_up_hp", "ram_e2_up_hp", "nik_e1_up_hp", "kf_k1_up_hp", "kf_k2_up_hp", "kb_k1s2_up", "nb_c1_up", "vb_s2_up", "ms_up_hp"]:
    _c07_quick.append(run("ownership", t, c=2, weight=2))
    _c07_thorough.append(run("ownership", t, c=3, opt={"prefill": 1}, weight=6))
    _c07_thorough.append(run("ownership", t, c=2, heap="reuse", weight=1))
# k-FIFO queues with the start slot inside a segment as a recorded choice (--opt rdom=2, one deviation); three threads x one operation with three preemptions and
# one deviating start slot is what seed C07f needs (two late pushers into a segment that advance_head has flagged but failed to unlink): thorough tier
for t in ["kf_k2_up_hp", "kf_k2_up_ebr", "kb_k2s2_up"]:
    _c07_quick.append(run("ownership", t, c=2, r=1, opt={"rdom": 2}, weight=1))
    _c07_thorough.append(run("ownership", t, c=3, r=1, opt={"rdom": 2, "T": 3, "m": 1, "prog": 4}, weight=12))  # push | push | pop
    _c07_thorough.append(run("ownership", t, c=2, r=1, opt={"rdom": 2, "T": 3, "m": 1}, weight=3))
    _c07_thorough.append(run("ownership", t, c=2, r=1, opt={"rdom": 2, "T": 3, "m": 1, "prefill": 1}, weight=3))
# sequential sweeps with unique_ptr elements at larger node / ring / segment sizes, destroyed with two elements inside (and empty)
for t in _sw_fifo + ["nb", "vb", "kb", "kf_hp"]:
    _c07_quick.append(run("sweep", t, c=0, r=0, opt={"maxn": 24, "laps": 2, "rest": 2, "maxcap": 20}, weight=0.1))
    _c07_thorough.append(run("sweep", t, c=0, r=0, opt={"maxn": 60, "laps": 3, "rest": 5, "maxcap": 70}, weight=0.2))
    _c07_thorough.append(run("sweep", t, c=0, r=0, opt={"maxn": 40, "laps": 2, "rest": 0, "maxcap": 40}, weight=0.2))
PLAN["C07"] = {
    "quick": _c07_quick, "thorough": _c07_thorough, "budget_s": {"quick": 150, "thorough": 1100},
    "rule": "programs: T threads x m operations over {push/try_push, try_pop}, all assignments (at least one push), then destruction of the queue WITHOUT draining; "
            "element kinds: std::unique_ptr<E>, raw E* (client keeps ownership), non-trivial movable V (identity travels with moves); all seven queue types with node / "
            "segment / ring sizes 1-2(-4); sequential runs: all sequences of depth 6..8; oracle: ledger of constructions / destructions per element id - handed-out "
            "elements alive and intact, popped at most once, every accepted element destroyed exactly once (consumer or queue destructor), rejected values intact with the "
            "caller, raw pointers never deleted by the queue - plus heap shadow (double free, use after free)",
    "assumptions": ["by-value try_push(value_type) signatures consume a rejected argument on the caller side; 'left with the caller' is checked as 'destroyed exactly once, not by the queue'"],
}
LEVEL_TEXT["C07"] = ("all interleavings with <= c preemptions of all enumerated producer/consumer programs followed by destruction of the non-empty queue, for 28 queue x "
                     "element-kind x node-size configurations, plus all sequential sequences to depth 6-8; exactly-once destruction decided from a construction/destruction ledger")

# ------------------------------------------------------------------------------------------------- C12
TITLES["C12"] = "chase_work_stealing_deque hands out every pushed item exactly once"
PLAN["C12"] = {
    "quick": [run("deque", "grow2", c=0, opt={"thieves": 0, "m": 6, "steal_between": 1, "maxoffset": 5}),
              run("deque", "fixed2", c=0, opt={"thieves": 0, "m": 6, "steal_between": 1, "maxoffset": 3}),
              run("deque", "grow2", c=2, weight=2), run("deque", "fixed2", c=2), run("deque", "grow4", c=1, opt={"m": 4}), run("deque", "grow2", c=3, opt={"offset": 2, "prefill": 2}, weight=2),
              run("deque", "grow2", c=1, opt={"thieves": 2, "s": 1}), run("deque", "grow2", c=1, mode="wmm", d=1), run("deque", "fixed2", c=1, mode="wmm", d=1)] +
             # two growths overtaking one steal: full array, three more pushes, at offsets in both halves of the 4C cycle
             [run("deque", "grow2", c=3, opt={"offset": k, "prefill": 2, "m": 3, "s": 1}, weight=1) for k in (4, 5, 6, 7, 8)] +
             # sequential sweeps: offsets 0..20 x fill levels 1..34 (array doubled up to 64) x take-out / second batch / drain patterns
             [run("deque", t, c=0, weight=0.1) for t in ("sweep_grow2", "sweep_grow4", "sweep_growmax8", "sweep_fixed4")],
    "thorough": [run("deque", t, c=0, opt={"maxoffset": 70, "maxn": 60}, weight=0.3) for t in ("sweep_grow2", "sweep_grow4", "sweep_growmax8", "sweep_fixed4")] + [run("deque", "grow2", c=0, opt={"thieves": 0, "m": 8, "steal_between": 1, "maxoffset": 5}),
                 run("deque", "grow4", c=0, opt={"thieves": 0, "m": 8, "steal_between": 1, "maxoffset": 7, "prefill": 2}),
                 run("deque", "fixed4", c=0, opt={"thieves": 0, "m": 8, "steal_between": 1, "maxoffset": 5}),
                 run("deque", "grow2", c=3, weight=6), run("deque", "fixed2", c=3, weight=4), run("deque", "grow2", c=2, opt={"thieves": 2, "s": 1}, weight=4),
                 run("deque", "grow2", c=2, opt={"m": 4, "s": 3, "maxoffset": 5}, weight=4), run("deque", "grow4", c=2, opt={"m": 5, "prefill": 2}, weight=4),
                 run("deque", "grow2", c=2, mode="wmm", d=1, weight=4), run("deque", "grow2", c=1, mode="wmm", d=2, W=64, weight=2),
                 run("deque", "fixed2", c=2, mode="wmm", d=1, weight=3), run("deque", "grow2", c=2, variant="tsanv")] +
                [run("deque", "grow2", c=3, opt={"offset": k, "prefill": 2, "m": 3, "s": 1}, weight=1) for k in range(3, 13)] +
                [run("deque", "grow2", c=3, opt={"offset": k, "prefill": 2, "m": 4, "s": 2}, weight=3) for k in (4, 7)] +
                [run("deque", "grow4", c=3, opt={"offset": k, "prefill": 4, "m": 5, "s": 1}, weight=3) for k in (8, 11, 13)],
    "budget_s": {"quick": 120, "thorough": 1000},
    "rule": "owner program of m operations over {try_push, try_pop} (all assignments), 1-2 thieves with s try_steal each, index offset 0..5 (push+steal pairs before the "
            "interesting part, enumerated) and 0..2 prefilled items (enumerated), capacity<2|4> with the growing and the fixed container, final drain; a fixed family "
            "'two growths overtake one steal' (full array, 3-5 further pushes against one thief, offsets 3..13 covering both halves of the 4C index cycle, c=3); sequential runs: "
            "all owner sequences to depth 6..8 with an optional steal after every step; oracle: Wing-Gong linearizability against a deque (owner LIFO, thief FIFO, steal "
            "may fail only when empty or overlapping another operation, push fails only on a full fixed container) + returned pointers must be pushed items",
    "assumptions": [],
}
LEVEL_TEXT["C12"] = ("all interleavings with <= c preemptions (and, in wmm mode, <= d stale reads) of all enumerated owner/thief programs around growth of the array at every "
                     "index offset 0..5, plus all sequential sequences to depth 6-8; every history checked against a sequential deque")

# ------------------------------------------------------------------------------------------------- C13
TITLES["C13"] = "left_right: readers always see one consistent, fully updated instance"
PLAN["C13"] = {
    "quick": [run("lr_seqlock", "left_right", c=4), run("lr_seqlock", "left_right", c=2, opt={"readers": 2, "loads": 1, "updates": 2}),
              run("lr_seqlock", "left_right", c=2, opt={"writers": 2, "updates": 1, "readers": 1, "loads": 2}),
              run("lr_seqlock", "left_right", c=2, mode="wmm", d=1), run("lr_seqlock", "left_right", c=2, variant="tsanv"),
              run("lr_seqlock", "left_right", c=2, opt={"ctor": 1}, weight=0.5), run("lr_seqlock", "left_right", c=2, opt={"ctor": 2}, weight=0.5),
              run("lr_seqlock", "left_right", c=5, weight=2), run("lr_seqlock", "left_right", c=3, opt={"readers": 2, "loads": 1, "updates": 2}),
              run("lr_seqlock", "left_right", c=3, opt={"writers": 2, "updates": 1, "readers": 1, "loads": 2}), run("lr_seqlock", "left_right", c=4, opt={"updates": 3, "loads": 3})],
    "thorough": [run("lr_seqlock", "left_right", c=6, weight=3), run("lr_seqlock", "left_right", c=4, opt={"readers": 2, "loads": 1, "updates": 2}, weight=4),
                 run("lr_seqlock", "left_right", c=3, opt={"ctor": 1}), run("lr_seqlock", "left_right", c=3, opt={"ctor": 2}),
                 run("lr_seqlock", "left_right", c=2, opt={"writers": 2, "updates": 1, "readers": 2, "loads": 1}, weight=2),
                 run("lr_seqlock", "left_right", c=2, opt={"readers": 3, "loads": 1, "updates": 2}, weight=4),
                 run("lr_seqlock", "left_right", c=3, opt={"updates": 3, "loads": 3}, weight=2),
                 run("lr_seqlock", "left_right", c=2, mode="wmm", d=2, W=64, weight=2), run("lr_seqlock", "left_right", c=3, mode="wmm", d=1, weight=2),
                 run("lr_seqlock", "left_right", c=3, variant="tsanv")],
    "budget_s": {"quick": 140, "thorough": 800},
    "rule": "1-2 writers x 1-3 updates (functor increments two plain fields), 1-3 readers x 1-3 reads (functor reads both fields); std::mutex and "
            "std::this_thread::yield are modelled (blocking lock, spin-wait hand-off); oracle: happens-before race detector on the functors' plain accesses (a reader on "
            "the instance being written is a data race on every schedule that overlaps them), a==b in every read, functor applied exactly twice per update, both "
            "instances equal to the number of updates at the end, Wing-Gong linearizability of reads against an atomic counter",
    "assumptions": [],
}
LEVEL_TEXT["C13"] = ("all interleavings with <= c preemptions (3 quick, 4 thorough; wmm: additionally <= d stale reads) of writers and readers, including readers arriving between "
                     "the instance switch and the version toggle; race detector and register-linearizability oracle on every execution")

# ------------------------------------------------------------------------------------------------- C14
TITLES["C14"] = "seqlock::load returns exactly some stored value, never torn or truncated"
_rt = ["seqrt_b16_s1", "seqrt_b16_s2", "seqrt_b16_s8", "seqrt_b24_s3", "seqrt_b12_s1", "seqrt_b12_s2", "seqrt_b20_s2", "seqrt_b28_s4", "seqrt_b9_s1", "seqrt_b9_s2"]
PLAN["C14"] = {
    "quick": [run("lr_seqlock", t, c=0, weight=0.2, first=1) for t in _rt] +
             [run("lr_seqlock", t, c=4) for t in ["seqlock_b16_s1", "seqlock_b16_s2", "seqlock_b16_s3", "seqlock_b24_s2", "seqlock_b12_s2", "seqlock_b16_s4"]] +
             [run("lr_seqlock", "seqlock_b16_s2", c=2, mode="wmm", d=2), run("lr_seqlock", "seqlock_b16_s1", c=2, mode="wmm", d=1),
              run("lr_seqlock", "seqlock_b16_s2", c=2, opt={"writers": 2, "readers": 1, "loads": 2, "stores": 2}, weight=3),
              run("lr_seqlock", "seqlock_b12_s2", c=3, variant="tsanv"),
              # updates whose functor leaves the value bit-identical (seed C14e: such an update skipped the copy into the next slot)
              run("lr_seqlock", "seqlock_b16_s2", c=3, opt={"noop": 2}, weight=0.6, first=1), run("lr_seqlock", "seqlock_b16_s3", c=3, opt={"noop": 1, "stores": 4, "loads": 2}, weight=0.6),
              run("lr_seqlock", "seqlock_b16_s2", c=2, opt={"noop": 1, "writers": 2, "readers": 1, "loads": 2, "stores": 2}, weight=0.8)],
    "thorough": [run("lr_seqlock", t, c=0, weight=0.2) for t in _rt] +
                [run("lr_seqlock", t, c=4, opt={"noop": n}) for t in ["seqlock_b16_s1", "seqlock_b16_s2", "seqlock_b16_s3", "seqlock_b16_s4"] for n in (1, 2)] +
                [run("lr_seqlock", "seqlock_b16_s2", c=2, opt={"noop": 1, "writers": 2, "readers": 1, "loads": 2, "stores": 2}, weight=2)] +
                [run("lr_seqlock", t, c=4, weight=2) for t in ["seqlock_b16_s1", "seqlock_b16_s2", "seqlock_b16_s3", "seqlock_b24_s2", "seqlock_b12_s2", "seqlock_b16_s4"]] +
                [run("lr_seqlock", "seqlock_b16_s2", c=2, opt={"writers": 2, "readers": 2, "loads": 1, "stores": 2}, weight=6),
                 run("lr_seqlock", "seqlock_b16_s3", c=2, opt={"writers": 2, "readers": 1, "loads": 2, "stores": 2}, weight=4),
                 run("lr_seqlock", "seqlock_b16_s1", c=2, opt={"writers": 2, "readers": 1, "loads": 2, "stores": 1}, weight=3),
                 run("lr_seqlock", "seqlock_b16_s2", c=3, opt={"stores": 4, "loads": 3}, weight=3),
                 run("lr_seqlock", "seqlock_b16_s2", c=3, mode="wmm", d=2, W=64, weight=3), run("lr_seqlock", "seqlock_b24_s2", c=2, mode="wmm", d=2, weight=2),
                 run("lr_seqlock", "seqlock_b16_s1", c=3, mode="wmm", d=2, weight=2), run("lr_seqlock", "seqlock_b16_s2", c=4, variant="tsanv")],
    "budget_s": {"quick": 100, "thorough": 800},
    "rule": "sequential: for types of 9, 12, 16, 20, 24, 28 bytes (alignments 1, 4, 8) and 1..8 slots every byte position is written through store() and update() and "
            "compared byte-wise after load(); concurrent: 1-2 writers (store / update alternating) x 1-3 readers, every byte of a value is a function of its tag so a torn "
            "or truncated result is visible; oracle: byte-wise consistency of every loaded value and of every value handed to an update functor, Wing-Gong linearizability "
            "against an atomic register",
    "assumptions": [],
}
LEVEL_TEXT["C14"] = ("all interleavings with <= c preemptions (3 quick, 4 thorough; wmm: <= d stale reads, exercising the fence pairing) of writers and readers for 1-4 slots, plus "
                     "exhaustive byte-position round trips for six type sizes/alignments; every loaded value compared byte-wise with the set of stored values")

# ------------------------------------------------------------------------------------------------- C08
# hm.cpp op bits: 0 emplace, 1 erase, 2 contains, 3 find, 4 emplace_or_get, 5 get_or_emplace, 6 get_or_emplace_lazy, 7 erase(find()), 8 operator[]
TITLES["C08"] = "Harris-Michael list set and hash map are linearizable sets/maps"
_c08_quick = [
    run("hm", "set_hp", c=1, opt={"ops": 0x7, "prefill": 1}), run("hm", "set_ebr", c=1, opt={"ops": 0x83, "prefill": 3}), run("hm", "set_lfrc", c=1, opt={"ops": 0x13, "prefill": 1}),
    run("hm", "set_stamp", c=1, opt={"ops": 0x3, "prefill": 3}), run("hm", "set_greater_hp", c=1, opt={"ops": 0x7, "prefill": 2}),
    run("hm", "map_b1_memo_scr_hp", c=1, opt={"ops": 0x23, "prefill": 2}), run("hm", "map_b1_lfrc", c=1, opt={"ops": 0x23, "prefill": 2}), run("hm", "map_b1_memo_scr_lfrc", c=1, opt={"ops": 0x62, "prefill": 2}),
    run("hm", "map_b2_hp", c=1, opt={"ops": 0x83, "prefill": 3}), run("hm", "map_b1_const_hp", c=1, opt={"ops": 0x103, "prefill": 1}),
    run("hm", "map_b1_ebr", c=2, opt={"ops": 0x3, "keys": 1}), run("hm", "set_hp", c=2, opt={"ops": 0x7, "keys": 1, "prefill": 1}), run("hm", "map_b1_lfrc", c=2, opt={"ops": 0x23, "keys": 1}),
    run("hm", "map_b1_hp", c=1, heap="reuse", opt={"ops": 0x23, "prefill": 2}),
    # immediate address reuse with era-based protection (finding F-C01-2 surfaced through find() -> acquire_if_equal)
    run("hm", "set_he", c=1, heap="reuse", opt={"ops": 0x7}), run("hm", "map_b1_he", c=1, heap="reuse", opt={"ops": 0x23, "prefill": 2}),
    # key type whose move constructor modifies its source (seed C08c: search with a key that has been moved into the node)
    run("hm", "map_mk_b1_hp", c=1, opt={"ops": 0x63}), run("hm", "map_mk_b1_memo_scr_ebr", c=1, opt={"ops": 0x23}, weight=0.5),
    run("hm", "map_b1_memo_scr_hp", c=0, opt={"T": 1, "m": 4, "ops": 0x1ff}), run("hm", "set_hp", c=0, opt={"T": 1, "m": 4, "ops": 0x9f}),
    run("hm", "map_b2_memo_scr_hp", c=0, opt={"T": 1, "m": 4, "ops": 0x1ff, "keys": 3, "prefill": 5}),
]
_c08_thorough = [run("hm", "set_" + r, c=1, opt={"ops": 0x97}, weight=3 if r == "stamp" else 1) for r in ["hp", "hpd", "he", "hed", "qsbr", "ebr", "nebr", "debra", "gebr_lazy", "stamp", "lfrc"]] + \
    [run("hm", "map_" + t, c=1, opt={"ops": 0xa7}, weight=3 if "stamp" in t else 1) for t in ["b1_hp", "b1_memo_hp", "b1_memo_scr_hp", "b1_const_hp", "b2_hp", "b2_memo_scr_hp", "b1_ebr", "b1_memo_scr_ebr", "b2_ebr", "b1_he", "b1_qsbr", "b1_nebr", "b1_debra", "b1_stamp", "b1_lfrc", "b1_memo_scr_lfrc"]] + \
    [run("hm", t, c=2, opt={"ops": 0x23, "keys": 2, "prefill": 1}, weight=4) for t in ["map_b1_hp", "map_b1_lfrc", "map_b1_memo_scr_ebr"]] + \
    [run("hm", t, c=2, opt={"ops": 0x13, "keys": 2, "prefill": 2}, weight=4) for t in ["set_hp", "set_lfrc", "set_ebr"]] + \
    [run("hm", t, c=3, opt={"ops": 0x7, "keys": 1}, weight=3) for t in ["set_hp", "map_b1_lfrc"]] + \
    [run("hm", t, c=2, opt={"ops": 0x3, "T": 3, "m": 1, "keys": 1}, weight=1) for t in ["set_hp", "set_ebr", "set_lfrc", "map_b1_hp", "map_b1_lfrc"]] + \
    [run("hm", t, c=1, heap="reuse", opt={"ops": 0x63}, weight=1) for t in ["map_b1_hp", "map_b1_ebr", "set_hp", "map_b1_he", "map_b1_lfrc", "map_b1_qsbr"]] + \
    [run("hm", t, c=2, heap="reuse", opt={"ops": 0x7}, weight=2) for t in ["set_he", "set_hed", "set_hp", "set_lfrc", "map_b1_he"]] + \
    [run("hm", t, c=1, opt={"ops": 0x1e3}, weight=2) for t in ["map_mk_b1_hp", "map_mk_b1_memo_scr_ebr", "map_mk_b2_lfrc"]] + \
    [run("hm", "map_mk_b1_hp", c=2, opt={"ops": 0x63, "keys": 1}, weight=2), run("hm", "map_mk_b1_hp", c=0, opt={"T": 1, "m": 4, "ops": 0x1ff}, weight=1)] + \
    [run("hm", t, c=1, variant="dbg", opt={"ops": 0xa7}, weight=1) for t in ["map_b1_hp", "map_b1_memo_scr_ebr", "set_hp"]] + \
    [run("hm", "map_b1_memo_scr_hp", c=0, opt={"T": 1, "m": 5, "ops": 0x1ff}, weight=3), run("hm", "set_hp", c=0, opt={"T": 1, "m": 6, "ops": 0x9f}, weight=3),
     run("hm", "map_b2_memo_scr_hp", c=0, opt={"T": 1, "m": 4, "ops": 0x1ff, "keys": 3}, weight=3), run("hm", "set_greater_hp", c=0, opt={"T": 1, "m": 5, "ops": 0x9f, "keys": 3}, weight=3)]
# sequential sweeps: 1..64 buckets, up to 16 (40) keys, scrambled fill, five thinning patterns by erase(key) / find+erase(iterator) / erasing traversal, refill, emptying traversal
_hm_sweeps = ["set_hp", "set_ebr", "set_lfrc", "map_b1_hp", "map_b5_memo_hp", "map_b8_hp", "map_b8_memo_scr_ebr", "map_b16_const_hp", "map_b16_lfrc", "map_b64_stamp", "map_mk_b8_hp"]
_c08_quick += [run("hm", "sweep_" + t, c=0, weight=0.15) for t in _hm_sweeps]
_c08_thorough += [run("hm", "sweep_" + t, c=0, opt={"maxn": 40}, weight=0.5) for t in _hm_sweeps]
_c08_thorough += [run("hm", t, c=1, opt={"ops": 0x3, "T": 4, "m": 1, "keys": 1}, weight=2) for t in ["set_hp", "map_b1_ebr", "map_b1_lfrc"]]  # four threads
PLAN["C08"] = {
    "quick": _c08_quick, "thorough": _c08_thorough, "budget_s": {"quick": 170, "thorough": 1300},
    "rule": "programs: T threads x m operations over subsets of {emplace, erase(key), contains, find, emplace_or_get, get_or_emplace, get_or_emplace_lazy, erase(find(key)), "
            "operator[]} on 1-3 keys (all assignments; programs without update, without a key shared by two threads, and symmetric duplicates pruned), all prefill subsets, "
            "final iteration as a snapshot operation; bucket counts 1-2, memoize_hash on/off, identity / constant / order-scrambling hash functors, std::greater compare; "
            "heap in quarantine and in immediate-reuse (ABA) mode; sequential runs: all sequences of depth 4-6 over the full alphabet; sequential sweeps over 1 / 5 / 8 / 16 / 64 "
            "buckets with up to 16 (40) keys (contains, find and a full traversal compared with a reference after every phase); oracle: Wing-Gong linearizability "
            "against a sequential map incl. value identity (erase(iterator) may have removed the element itself or lost the race to another remover)",
    "assumptions": [],
}
LEVEL_TEXT["C08"] = ("all interleavings with <= c preemptions (1-2 quick, up to 3 thorough) of all enumerated 2-3 thread programs over small colliding key sets for the set and "
                     "ten hash-map configurations, plus all sequential operation sequences to depth 4-6; every history checked for linearizability against a sequential map")

# ------------------------------------------------------------------------------------------------- C09
TITLES["C09"] = "Harris-Michael iterators stay valid and weakly consistent under updates"
_it_seq = ["iset_hp", "imap_b1_hp", "imap_b1_memo_hp", "imap_b1_memo_scr_hp", "imap_b1_scr_hp", "imap_b2_memo_scr_hp", "imap_b2_hp"]
_it_conc = ["iset_hp", "iset_hpd", "iset_he", "iset_qsbr", "iset_ebr", "iset_nebr", "iset_debra", "iset_stamp", "iset_lfrc",
            "imap_b1_hp", "imap_b1_memo_scr_hp", "imap_b2_memo_scr_hp", "imap_b1_ebr", "imap_b1_memo_scr_ebr", "imap_b1_he", "imap_b1_stamp", "imap_b1_lfrc"]
PLAN["C09"] = {
    "quick": [run("hm", "sweep_" + t, c=0, weight=0.15) for t in _hm_sweeps] +  # traversals / erase(iterator) over long lists and many empty buckets
             [run("hm", t, c=0, opt={"updaters": 0, "steps": 3}, weight=0.3) for t in _it_seq] +
             [run("hm", t, c=1, opt={"keys": 2}, weight=2 if "stamp" in t else 1) for t in _it_conc] +
             [run("hm", t, c=2, opt={"keys": 2, "m": 1}, weight=3) for t in ["iset_lfrc", "imap_b1_memo_scr_hp"]] +
             [run("hm", t, c=1, heap="reuse", opt={"keys": 2}, weight=1) for t in ["iset_he", "iset_hp"]] +
             # erase(iterator) that loses its splice while the list behind it shrinks, a later bucket still populated (seed C09d): 0 -> 1 -> 2 | 3, two erasing updaters
             [run("hm", "imap_b2_31_hp", c=1, opt={"fixed": 2, "nocopy": 1}, weight=1.2), run("hm", "imap_b2_31_memo_ebr", c=1, opt={"fixed": 2, "nocopy": 1}, weight=1.0)],
    "thorough": [run("hm", t, c=0, opt={"updaters": 0, "steps": 4}, weight=1) for t in _it_seq] +
                [run("hm", "imap_b2_31_hp", c=2, opt={"fixed": 2, "nocopy": 1}, weight=8), run("hm", "imap_b2_31_hp", c=1, opt={"fixed": 2}, weight=3),
                 run("hm", "imap_b2_31_memo_ebr", c=1, opt={"fixed": 2}, weight=3), run("hm", "imap_b2_31_hp", c=1, opt={"keys": 4, "m": 1, "updaters": 2, "prefill": 15}, weight=6)] +
                [run("hm", t, c=2, heap="reuse", opt={"keys": 2}, weight=3) for t in ["iset_he", "iset_hp", "imap_b1_he", "iset_lfrc"]] +
                # re-scan from a position behind the head while three updaters change the list (seed C09c); library asserts armed (dbg)
                [run("hm", t, c=2, variant="dbg", opt={"fixed": 1, "steps": 3}, weight=6) for t in ["iset_hp", "imap_b1_hp"]] +
                [run("hm", "iset_hp", c=3, opt={"fixed": 1, "steps": 3}, weight=6)] +
                [run("hm", t, c=1, variant="dbg", opt={"keys": 2}, weight=1) for t in ["iset_hp", "iset_ebr", "imap_b1_memo_scr_hp"]] +
                [run("hm", t, c=2, opt={"keys": 2}, weight=8 if "stamp" in t else 4) for t in _it_conc] +
                [run("hm", t, c=1, opt={"keys": 3, "m": 2}, weight=3) for t in ["iset_hp", "imap_b1_memo_scr_hp", "iset_lfrc", "imap_b2_memo_scr_hp"]] +
                [run("hm", t, c=1, opt={"keys": 2, "m": 1, "updaters": 2}, weight=3) for t in ["iset_hp", "imap_b1_memo_scr_hp", "iset_ebr", "iset_lfrc"]],
    "budget_s": {"quick": 170, "thorough": 1300},
    "rule": "a traversing thread (begin, dereference, then per position an enumerated choice of ++, continue on a copy while the original is destroyed, or it = erase(it)) "
            "against 1-2 updater threads running enumerated emplace/erase programs on 2-3 keys, all non-empty prefill subsets; sequential runs: the traversing thread itself "
            "performs an enumerated erase/emplace of any key through the container between iterator steps (up to 3-4 steps); HP/HE with 8 static slots; oracle on the recorded "
            "history: every key present throughout and never erased is yielded exactly once, every yielded key was in the container by then, a key is yielded twice only if it "
            "was re-inserted during the traversal, sorted traversal of the set never goes backwards without a re-insert, erase(iterator) removes the element (conservation "
            "against the final iteration); heap lifetime shadow and race detector cover 'never touches reclaimed memory'",
    "assumptions": ["weak consistency is checked with conservative rules (violations are only reported when no linearization of the concurrent updates could explain the traversal)"],
}
LEVEL_TEXT["C09"] = ("all interleavings with <= c preemptions (1-2) of a traversing/erasing iterator thread with 1-2 updaters for 17 container x reclaimer configurations, plus all "
                     "single-thread sequences of iterator steps interleaved with updates through the container; traversal results checked against the update history")

# ------------------------------------------------------------------------------------------------- C10
# vy.cpp op bits: 0 emplace, 1 erase, 2 try_get_value, 3 find, 4 get_or_emplace, 5 extract
TITLES["C10"] = "vyukov_hash_map is a linearizable map, including lock-free reads and resizing"
_vy_modes = ["tt_i1_hp", "tt_i2_hp", "tt_ic_hp", "tt_i1_ebr", "tt_i1_he", "tt_i1_qsbr", "tt_i1_nebr", "tt_i1_debra", "tt_i1_stamp", "tn_i1_hp", "tn_i2_ebr",
             "st_s1_hp", "st_s2_hp", "st_s1_ebr", "sn_s1_hp", "tm_i1_hp", "tm_i2_ebr", "sm_s1_hp", "sm_s2_ebr"]
_c10_quick = [run("vy", "map_" + t, c=0, opt={"T": 1, "m": 3, "keys": 5, "cap": 128, "prefill": 15, "ops": 0x3f}, weight=0.5) for t in ["tt_i1_hp", "tn_i1_hp", "st_s1_hp", "sn_s1_hp", "tm_i1_hp", "sm_s1_hp", "st_s2_hp", "tm_i2_ebr"]] + \
    [run("vy", "map_" + t, c=0, opt={"T": 1, "m": 3, "keys": 6, "cap": 1, "prefill": 7, "ops": 0x33}, weight=0.5) for t in ["tt_i1_hp", "tn_i1_hp", "st_s1_hp", "sm_s1_hp"]] + \
    [run("vy", "map_tt_i1_hp", c=1, opt={"keys": 2, "cap": 1, "ops": 0x7, "prefill": 1}), run("vy", "map_st_s1_hp", c=1, opt={"keys": 2, "cap": 128, "ops": 0x25, "prefill": 1}),
     run("vy", "map_tm_i1_hp", c=1, opt={"keys": 2, "cap": 1, "ops": 0x26, "prefill": 3}), run("vy", "map_tt_i1_ebr", c=1, opt={"keys": 2, "cap": 128, "ops": 0x16, "prefill": 1}),
     run("vy", "map_tt_i1_hp", c=1, opt={"m": 1, "keys": 5, "prefill": 31, "cap": 128, "ops": 0x27}, weight=2), run("vy", "map_st_s1_hp", c=1, opt={"m": 1, "keys": 5, "prefill": 31, "cap": 128, "ops": 0x27}, weight=2),
     run("vy", "map_tn_i1_hp", c=1, opt={"m": 1, "keys": 4, "prefill": 7, "cap": 1, "ops": 0x7}, weight=2), run("vy", "map_tt_i1_stamp", c=1, opt={"m": 1, "keys": 2, "cap": 1, "ops": 0x7, "prefill": 1}),
     # non-trivial key storage modes under concurrency (finding F-C10-3: node dereferenced before the bucket version is validated)
     run("vy", "map_sm_s1_hp", c=1, opt={"keys": 2, "cap": 1, "ops": 0x7, "prefill": 1}), run("vy", "map_sn_s1_hp", c=1, opt={"keys": 2, "cap": 1, "ops": 0x7, "prefill": 1})]
_c10_thorough = [run("vy", "map_" + t, c=0, opt={"T": 1, "m": 4, "keys": 5, "cap": 128, "prefill": 15, "ops": 0x3f}, weight=2) for t in _vy_modes if "stamp" not in t] + \
    [run("vy", "map_" + t, c=0, opt={"T": 1, "m": 4, "keys": 6, "cap": 1, "prefill": 7, "ops": 0x33}, weight=1) for t in ["tt_i1_hp", "tn_i1_hp", "st_s1_hp", "sn_s1_hp", "tm_i1_hp", "sm_s1_hp"]] + \
    [run("vy", "map_" + t, c=1, opt={"keys": 2, "cap": 1, "ops": 0x27}, weight=2) for t in _vy_modes] + \
    [run("vy", "map_" + t, c=2, opt={"m": 1, "keys": 5, "prefill": 31, "cap": 128, "ops": 0x27}, weight=6) for t in ["tt_i1_hp", "st_s1_hp", "tm_i1_hp", "tn_i1_hp", "sm_s1_hp"]] + \
    [run("vy", "map_" + t, c=1, opt={"m": 1, "T": 3, "keys": 4, "prefill": 7, "cap": 1, "ops": 0x7}, weight=4) for t in ["tt_i1_hp", "st_s1_hp", "tm_i1_hp"]] + \
    [run("vy", "map_tt_i1_hp", c=1, mode="wmm", d=1, opt={"m": 1, "keys": 5, "prefill": 31, "cap": 128, "ops": 0x7}, weight=3)] + \
    [run("vy", "map_" + t, c=2, heap="reuse", opt={"m": 1, "keys": 5, "prefill": 31, "cap": 128, "ops": 0x27}, weight=3) for t in ["tt_i1_hp", "tt_i1_he", "tn_i1_hp", "tm_i1_hp"]] + \
    [run("vy", "map_" + t, c=1, heap="reuse", opt={"keys": 2, "cap": 1, "ops": 0x27}, weight=1) for t in ["tt_i1_hp", "tt_i1_he", "tt_i1_ebr", "st_s1_hp", "tm_i1_hp"]]
# sequential sweeps: capacities 1 / 8 / 128, up to 24 (48) keys spread over the buckets or sharing 1 / 4 buckets, removal by erase / extract / iterator, refill
_vy_sweeps = ["tt_id_hp", "tt_i1_hp", "tt_i4_ebr", "tn_i4_hp", "tn_id_ebr", "st_sid_hp", "st_s1_hp", "sn_sid_ebr", "tm_i4_hp", "tm_id_ebr", "sm_sid_hp"]
_c10_quick += [run("vy", "sweep_" + t, c=0, weight=0.15) for t in _vy_sweeps]
# lock-free readers against removals made through an iterator (C11's family; seed C10d breaks C10's "never 'absent' for a key present throughout the call" that way)
_c10_quick += [run("vy", t, c=1, weight=0.6, first=1) for t in ["itf_tn_i1_hp", "itf_st_s1_hp"]]
_c10_thorough += [run("vy", "itf_" + t, c=2, weight=1) for t in ["tt_i1_hp", "st_s1_hp", "tm_i1_hp", "tn_i1_hp", "sm_s1_hp"]]
_c10_thorough += [run("vy", "sweep_" + t, c=0, opt={"maxn": 24 if t == "st_s1_hp" else 48, "ncaps": 5}, weight=0.5) for t in _vy_sweeps]
PLAN["C10"] = {
    "quick": _c10_quick, "thorough": _c10_thorough, "budget_s": {"quick": 170, "thorough": 1300},
    "rule": "programs: T threads x m operations over subsets of {emplace, erase, try_get_value, find, get_or_emplace, extract} on 2-6 keys that share one bucket "
            "(keys congruent mod 128 / constant hash) or two buckets; initial capacity 1 (every fourth key in a bucket forces grow) and 128 (extension items), "
            "five key/value storage specialisations (trivial/non-trivial key x trivial / non-trivial / managed_ptr value); sequential runs: all sequences of depth 3-4 "
            "over the full alphabet after a prefill that populates the extension list; get_or_emplace on odd keys goes through get_or_emplace_lazy (factory called iff inserted); "
            "sequential sweeps (capacity 1 / 8 / 128, 1..24 keys - 48 thorough - spread over the buckets or sharing one / four buckets, five removal patterns by erase / extract / "
            "traversal+erase(iterator) / find+erase(iterator), refill; try_get_value, find and a full traversal compared with a reference after every phase); final full iteration as snapshot; oracle: Wing-Gong linearizability against a "
            "sequential map incl. value identity (a lock-free read may never return another key's value), heap shadow and race detector, progress monitor on try_get_value",
    "assumptions": ["values are small integers (wrapped in non-trivial / managed objects as the mode requires)"],
}
LEVEL_TEXT["C10"] = ("all sequential operation sequences to depth 3-4 for 8-19 storage-mode x reclaimer configurations with populated extension lists and with repeated growth, and all "
                     "interleavings with <= c preemptions (1 quick, 2 thorough) of enumerated writer/reader programs on keys sharing a bucket; every history checked against a sequential map")

# ------------------------------------------------------------------------------------------------- C11
TITLES["C11"] = "vyukov_hash_map iterators: exclusive traversal, erase(iterator), no lost locks"
_c11_seq = ["it_tt_i1_hp", "it_tt_i2_hp", "it_st_s1_hp", "it_tm_i1_hp", "it_tn_i1_hp", "it_sm_s2_ebr", "it_st_s2_hp"]
# an iterator stepping from one bucket into the next while an insertion makes the two-bucket map grow (grow() takes every bucket lock in ascending order and never
# gives them back; hand-over-hand locking is what keeps the iterator ahead of it - seed C11d): begin() on the bucket holding key 1, ++ into the bucket of 0, 2, 4
_IT_GROW = {"cap": 2, "steps": 2, "act0": 0, "act1": 1, "keys": 8, "prefill": 23, "updaters": 1, "m": 1, "uemplace": 1, "ukeymask": 64}
PLAN["C11"] = {
    "quick": [run("vy", "it_tt_i2_hp", c=2, opt=_IT_GROW, weight=5, first=1)] +
             [run("vy", t, c=0, opt={"steps": 4, "keys": 5, "prefill": 31}, weight=0.5) for t in _c11_seq] +
             [run("vy", "it_tt_i2_hp", c=0, opt={"steps": 3, "keys": 8, "prefill": 255}, weight=0.5),
              run("vy", "it_tt_i1_hp", c=1, opt={"steps": 2, "keys": 5, "prefill": 31, "readers": 1, "m": 1}, weight=2),
              run("vy", "it_st_s1_hp", c=1, opt={"steps": 2, "keys": 5, "prefill": 31, "readers": 1, "m": 1}, weight=2),
              run("vy", "it_tt_i2_hp", c=1, opt={"steps": 2, "keys": 4, "prefill": 15, "updaters": 1, "m": 1}, weight=2),
              run("vy", "it_tm_i1_hp", c=1, opt={"steps": 2, "keys": 4, "prefill": 15, "readers": 1, "m": 1}, weight=2)] +
             [run("vy", t, c=2, weight=2) for t in ["itf_tt_i1_hp", "itf_st_s1_hp"]] + [run("vy", t, c=1, weight=0.5) for t in ["itf_tm_i1_hp", "itf_tn_i1_hp", "itf_tt_i2_hp"]] +
             # sequential sweeps: erasing traversals / find+erase(iterator) over maps with long extension chains and after several grows, map emptied through an iterator
             [run("vy", "sweep_" + t, c=0, weight=0.15) for t in _vy_sweeps],
    "thorough": [run("vy", t, c=2, opt=_IT_GROW, weight=1.5) for t in ["it_tt_i2_hp", "it_st_s2_hp", "it_tn_i2_ebr", "it_sm_s2_ebr"]] +
                [run("vy", "it_tt_i2_hp", c=2, opt=dict(_IT_GROW, steps=3, mapops=0, ukeymask=0, uemplace=0), weight=4), run("vy", "it_tt_i2_hp", c=3, opt=_IT_GROW, weight=4)] +
                [run("vy", t, c=0, opt={"steps": 5, "keys": 5, "prefill": 31}, weight=2) for t in _c11_seq] +
                [run("vy", "itf_" + t, c=3, weight=3) for t in ["tt_i1_hp", "st_s1_hp", "tm_i1_hp", "tn_i1_hp", "sm_s1_hp", "tt_i1_ebr", "tt_i2_hp"]] +
                [run("vy", "it_tt_i2_hp", c=0, opt={"steps": 4, "keys": 8, "prefill": 255}, weight=2)] +
                [run("vy", t, c=1, opt={"steps": 3, "keys": 5, "prefill": 31, "readers": 1, "m": 1}, weight=6) for t in ["it_tt_i1_hp", "it_st_s1_hp", "it_tm_i1_hp", "it_tn_i1_hp"]] +
                [run("vy", t, c=2, opt={"steps": 2, "keys": 5, "prefill": 31, "readers": 1, "m": 1}, weight=6) for t in ["it_tt_i1_hp", "it_st_s1_hp"]] +
                [run("vy", t, c=1, opt={"steps": 3, "keys": 4, "prefill": 15, "updaters": 1, "m": 1}, weight=4) for t in ["it_tt_i2_hp", "it_st_s2_hp", "it_sm_s2_ebr"]] +
                [run("vy", "it_tt_i2_hp", c=1, opt={"steps": 2, "keys": 4, "prefill": 15, "updaters": 1, "readers": 1, "m": 1}, weight=4)],
    "budget_s": {"quick": 200, "thorough": 1200},
    "rule": "one iterator thread performs an enumerated sequence (2-5 steps) of {begin, ++, erase(iterator), reset, find(key) move-assigned onto the iterator, ordinary "
            "emplace/erase} (programs that would wait for their own bucket lock are pruned as illegal), on 128-bucket maps whose keys share one or two buckets with populated "
            "extension lists; concurrently 0-1 lock-free readers (try_get_value) and 0-1 writers on enumerated keys; afterwards every key is read, one key per bucket is "
            "inserted and erased (a leaked bucket lock makes these spin: LIVELOCK verdict) and the map is iterated; a fixed family itf_* (find(victim), erase(iterator), reset "
            "against one try_get_value(wanted), victim and wanted enumerated over the five keys of a bucket with two extension items) is explored one preemption deeper; oracle: Wing-Gong linearizability of the whole history "
            "with iterator steps interpreted as map operations (yield = find, erase(iterator) = successful erase of exactly that key), full traversal yields every element once",
    "assumptions": [],
}
LEVEL_TEXT["C11"] = ("all single-threaded iterator/operation sequences to depth 4-5 for seven storage modes with populated extension lists, and all interleavings with <= c preemptions of an "
                     "iterating/erasing thread with a lock-free reader or a writer; reader results, traversal results and lock release checked on every execution")

# ------------------------------------------------------------------------------------------------- C15
TITLES["C15"] = "marked_ptr, concurrent_ptr and guard_ptr obey their smart-pointer algebra"
_alg = ["hpd", "hed", "qsbr", "ebr", "nebr", "debra", "gebr_lazy", "gebr_thr", "stamp", "lfrc", "lfrc_tl"]
PLAN["C15"] = {
    "quick": [run("markedptr", "marked_ptr", c=0, plain_horizon=100000000000, wall=200, opt={"full": 14}, weight=2)] +
             [run("markedptr", "concurrent_ptr_" + r, c=0, weight=0.2) for r in ["hp", "ebr", "lfrc"]] +
             [run("guards", "alg_" + r, c=0, opt={"depth": 3}, weight=2 if r == "stamp" else 1) for r in _alg] +
             [run("guards", "slots_hp_k2", c=0, opt={"depth": 3}), run("guards", "slots_he_k2", c=0, opt={"depth": 3})] +
             # guards that start on different nodes with different slots / eras (seed C15: swap that does not swap the protection)
             [run("guards", t, c=0, opt={"depth": 3, "altfill": 1}, weight=0.5) for t in ["alg_hpd", "alg_hed", "slots_hp_k3", "slots_he_k3", "alg_ebr", "alg_lfrc", "alg_stamp"]] +
             [run("guards", "snap_" + r, c=2, weight=1) for r in ["hp", "hpd", "he", "qsbr", "ebr", "nebr", "debra", "lfrc"]] + [run("guards", "snap_stamp", c=1)] +
             # a third cell holds (nullptr, mark 1): guards acquired / constructed / copied from it protect nothing but are not empty (seed C15d, finding F-C18-3)
             [run("guards", t, c=0, opt={"depth": 3, "nullcell": 1}, weight=0.5) for t in ["alg_hpd", "alg_hed", "alg_qsbr", "alg_ebr", "alg_nebr", "alg_debra", "alg_gebr_lazy", "alg_stamp", "alg_lfrc", "slots_hp_k2", "slots_he_k2"]],
    "thorough": [run("markedptr", "marked_ptr", c=0, plain_horizon=100000000000, wall=1200, opt={"full": 24, "shards": 64}, weight=10),
                 run("markedptr", "marked_ptr", c=0, plain_horizon=1000000000000, wall=2400, opt={"full": 32, "w": 32, "shards": 256}, weight=20)] +
                [run("guards", "alg_" + r, c=0, opt={"depth": 4}, weight=4 if r == "stamp" else 2) for r in _alg] +
                [run("guards", "alg_" + r, c=0, opt={"depth": 3, "guards": 3}, weight=2) for r in ["hpd", "ebr", "lfrc"]] +
                [run("guards", "alg_" + r, c=0, opt={"depth": 4, "altfill": 1}, weight=2) for r in _alg] +
                [run("guards", t, c=0, opt={"depth": 4, "altfill": 1}, weight=2) for t in ["slots_hp_k3", "slots_he_k3"]] +
                [run("guards", "snap_" + r, c=3, opt={"replaces": 2, "acquires": 2}, weight=3) for r in ["hp", "he", "ebr", "qsbr", "lfrc"]] +
                [run("guards", "snap_" + r, c=2, opt={"replaces": 3, "acquires": 3}, weight=3) for r in ["hp", "ebr", "lfrc", "stamp"]] +
                [run("guards", "snap_" + r, c=2, mode="wmm", d=1, weight=2) for r in ["hp", "he", "ebr", "qsbr"]] +
                [run("guards", t, c=0, opt={"depth": 3, "nullcell": 1, "guards": 3}, weight=3) for t in ["alg_hpd", "alg_hed", "alg_ebr", "alg_nebr", "alg_lfrc", "alg_stamp", "slots_hp_k2", "slots_he_k2", "slots_hp_k1", "slots_he_k1"]] +
                [run("guards", t, c=0, opt={"depth": 4, "nullcell": 1, "altfill": 1}, weight=3) for t in ["alg_hpd", "alg_hed", "alg_ebr", "alg_debra"]],
    "budget_s": {"quick": 150, "thorough": 2200},
    "rule": "marked_ptr: mark widths 0..32 x MaxUpperMarkBits {0,8,16} x 5 pointer patterns (null, lowest / highest / alternating canonical user address aligned as the width "
            "requires): all 2^w mark values for w <= 14 (quick) / 24 and w = 32 (thorough), boundary families (0, all ones, walking one/zero, 2^k+-1) above; get/mark/bool/==/!= / "
            "reset against the (pointer, mark) pair; concurrent_ptr store/load/CAS round trips; guard algebra: all sequences of depth 3-4 over {acquire, acquire_if_equal "
            "(match / mismatch in mark or pointer), reset (twice), copy-assign and move-assign incl. self, swap, reclaim, copy/move-construct, construct from raw pointer} on 2-3 "
            "guards and 2 cells against a shared-ownership reference model (which guard holds which node and mark, nodes alive while held), from empty guards and from guards "
            "that start on different nodes with different slots / eras (altfill), each sequence closed by an unlink-and-retire storm after which every node still held must be alive; snapshot: a thread that keeps "
            "replacing the cell vs a thread doing acquire / acquire_if_equal, linearizability against an atomic pointer cell",
    "assumptions": ["pointer patterns are representative, not exhaustive (the pointer domain is 2^47)"],
}
LEVEL_TEXT["C15"] = ("exhaustive enumeration of mark values per width (all values up to the stated width bound, boundary families above) and of guard operation sequences to depth 3-4 for "
                     "11 reclaimer configurations against reference models, plus all interleavings with <= c preemptions of an acquiring thread with a replacing thread")

# ------------------------------------------------------------------------------------------------- C18
TITLES["C18"] = "Hazard pointer/era slots: K available, exhaustion reported, slots reusable"
PLAN["C18"] = {
    "quick": [run("guards", "slots_hp_k1", c=0, opt={"depth": 3, "guards": 3}), run("guards", "slots_hp_k2", c=0, opt={"depth": 3, "guards": 3}, weight=2),
              run("guards", "slots_hp_k3", c=0, opt={"depth": 3, "guards": 4, "fill": 2, "ops": 0x31b}, weight=2),
              run("guards", "slots_hp_k5", c=0, opt={"depth": 3, "guards": 7, "fill": 4, "ops": 0x119}, weight=2),
              run("guards", "slots_he_k1", c=0, opt={"depth": 3, "guards": 3}), run("guards", "slots_he_k2", c=0, opt={"depth": 3, "guards": 3}, weight=2),
              run("guards", "slots_he_k3", c=0, opt={"depth": 3, "guards": 4, "fill": 2, "ops": 0x31b}, weight=2),
              run("guards", "slots_he_k5", c=0, opt={"depth": 3, "guards": 7, "fill": 4, "ops": 0x119}, weight=2),
              run("guards", "slots_hpd_k1", c=0, opt={"depth": 3, "guards": 3}), run("guards", "slots_hed_k1", c=0, opt={"depth": 3, "guards": 3}),
              run("guards", "slots_hp_k1", c=0, opt={"depth": 2, "guards": 2, "gens": 2, "ops": 0x9b}), run("guards", "slots_he_k2", c=0, opt={"depth": 2, "guards": 3, "gens": 2, "ops": 0x99}),
              # exhaustion in a later era and what follows the refusal (seed C18, finding F-C18-2): slots held in distinct eras
              run("guards", "slots_he_k1", c=0, opt={"depth": 4, "guards": 2, "fill": 1, "ops": 0x99}), run("guards", "slots_he_k2", c=0, opt={"depth": 4, "guards": 3, "altfill": 1, "ops": 0x99}, weight=2),
              run("guards", "slots_hp_k2", c=0, opt={"depth": 4, "guards": 3, "altfill": 1, "ops": 0x99}),
              # concurrent: acquire_if_equal refused because the source changed between its two loads; the emptied guard must not keep its slot (seed C18b)
              run("guards", "snap_hp", c=2)] +
             # control block reuse with many guards: generations of threads holding up to 9 guards at once (dynamic: additional blocks are allocated, then
             # re-initialised by the adopting thread - seeds C18c / C17c), released in three orders with a scan after every release
             [run("guards", "reuse_" + t, c=0, opt={"gens": 2, "maxn": 9}, weight=0.3) for t in ["hpd_k1", "hpd_k2", "hed_k1", "hed_k2"]] +
             [run("guards", "reuse_" + t, c=0, opt={"gens": 3}, weight=0.3) for t in ["hp_k3", "he_k3"]] +
             [run("guards", "reuse_" + t, c=0, opt={"gens": 2, "maxn": 9, "eras": 1}, weight=0.3) for t in ["hed_k1", "hed_k2", "hpd_k1", "hpd_k2"]] +
             # a guard holding a marked null pointer must not occupy a slot (finding F-C18-3)
             [run("guards", t, c=0, opt={"depth": 3, "guards": 2, "nullcell": 1}, weight=0.5) for t in ["slots_hp_k1", "slots_he_k1", "slots_hp_k2", "slots_he_k2"]] +
             [run("guards", "slots_he_k1", c=0, opt={"depth": 4, "guards": 2, "nullcell": 1, "ops": 0x81}, weight=0.3)],
    "thorough": [run("guards", "reuse_" + t, c=0, opt={"gens": 3, "maxn": 9}, weight=2) for t in ["hpd_k1", "hpd_k2", "hed_k1", "hed_k2"]] +
                [run("guards", "reuse_" + t, c=0, opt={"gens": 4}, weight=1) for t in ["hp_k3", "he_k3"]] +
                [run("guards", "reuse_" + t, c=0, opt={"gens": 3, "maxn": 9, "eras": 1}, weight=2) for t in ["hed_k1", "hed_k2", "hpd_k1", "hpd_k2"]] +
                [run("guards", t, c=0, opt={"depth": 4, "guards": 2, "nullcell": 1}, weight=3) for t in ["slots_hp_k1", "slots_he_k1", "slots_hp_k2", "slots_he_k2"]] +
                [run("guards", "slots_hp_k1", c=0, opt={"depth": 4, "guards": 3}, weight=4), run("guards", "slots_hp_k2", c=0, opt={"depth": 4, "guards": 3}, weight=6),
                 run("guards", "slots_hp_k3", c=0, opt={"depth": 4, "guards": 5, "fill": 2, "ops": 0x31b}, weight=6),
                 run("guards", "slots_hp_k5", c=0, opt={"depth": 4, "guards": 7, "fill": 4, "ops": 0x119}, weight=6),
                 run("guards", "slots_he_k1", c=0, opt={"depth": 4, "guards": 3}, weight=4), run("guards", "slots_he_k2", c=0, opt={"depth": 4, "guards": 3}, weight=6),
                 run("guards", "slots_he_k3", c=0, opt={"depth": 4, "guards": 5, "fill": 2, "ops": 0x31b}, weight=6),
                 run("guards", "slots_he_k5", c=0, opt={"depth": 4, "guards": 7, "fill": 4, "ops": 0x119}, weight=6),
                 run("guards", "slots_hpd_k1", c=0, opt={"depth": 4, "guards": 3}, weight=4), run("guards", "slots_hed_k1", c=0, opt={"depth": 4, "guards": 3}, weight=4),
                 run("guards", "slots_hp_k2", c=0, opt={"depth": 3, "guards": 3, "gens": 3}, weight=4), run("guards", "slots_he_k2", c=0, opt={"depth": 3, "guards": 3, "gens": 3}, weight=4),
                 run("guards", "slots_he_k1", c=0, opt={"depth": 6, "guards": 2, "fill": 1, "ops": 0x99}, weight=3), run("guards", "slots_he_k2", c=0, opt={"depth": 5, "guards": 3, "altfill": 1, "ops": 0x99}, weight=6),
                 run("guards", "slots_he_k3", c=0, opt={"depth": 4, "guards": 4, "altfill": 1, "ops": 0x99}, weight=3), run("guards", "slots_hp_k2", c=0, opt={"depth": 5, "guards": 3, "altfill": 1, "ops": 0x99}, weight=4),
                 run("guards", "slots_hed_k1", c=0, opt={"depth": 5, "guards": 3, "altfill": 1, "ops": 0x99}, weight=3),
                 run("guards", "snap_hp", c=3, opt={"replaces": 2, "acquires": 2}, weight=4)],
    "budget_s": {"quick": 170, "thorough": 1200},
    "rule": "one thread, all sequences of depth 3-4 over guard operations {acquire, acquire_if_equal, reset, copy-assign, move-assign, swap, reclaim, copy-construct, construct from "
            "pointer} on K+1..K+2 guard variables (K in 1,2,3,5; for K>=3 the first guards are pre-filled and the alphabet reduced), static and dynamic strategies, hazard "
            "pointers and hazard eras, optionally repeated in 2-3 successive threads that reuse the control block; reference model counts protecting guards: an operation that "
            "needs no new slot must not throw, with hazard pointers one that needs more than K must throw bad_hazard_pointer_alloc (hazard eras may share an entry between guards of one era: the model tracks "
            "the era of every guard - one era step per retirement - and demands bad_hazard_era_alloc when the other guards already hold K distinct eras none of which is the "
            "current one, otherwise they may or may not throw), the dynamic strategy never throws; after every step every guard refers to its node and the node is alive; a "
            "refused acquire leaves the guard unchanged or empty; every sequence ends with an unlink-and-retire storm after which every node still held must be alive; "
            "afterwards K guards can be held at once and repeated acquire/reset never exhausts the slots; concurrently (snap_hp): whenever acquire_if_equal is refused - also "
            "because another thread changed the source between its two loads - the emptied guard holds no slot: K further guards can be held",
    "assumptions": [],
}
LEVEL_TEXT["C18"] = ("exhaustive enumeration of guard operation sequences to depth 3-4 (4-6 over a reduced alphabet with slots held in distinct eras) for K in {1,2,3,5}, hazard pointers and hazard eras, static and dynamic strategy, with thread exit and "
                     "control-block reuse, against a slot-counting reference model")

# ------------------------------------------------------------------------------------------------- C03
TITLES["C03"] = "Correct under the C++ memory model: race-free, robust to weak executions"
def _w(bin, test, c=1, d=1, **kw):
    return run(bin, test, c=c, d=d, mode="wmm", **kw)
_c03_quick = \
    [_w("queues", "%s_%s" % (q, r)) for q in ["ms", "ram_e1p1", "ram_e2p0", "nik_e1p1", "nik_e2p0"] for r in ["hp", "ebr", "lfrc"]] + \
    [_w("queues", "%s_stamp" % q, c=0) for q in ["ms", "ram_e1p1", "nik_e1p1"]] + \
    [_w("reclaim", "proto_" + r, opt={"ops": 0x62}) for r in RECL_ALL if r != "stamp"] + [_w("reclaim", "proto_stamp", c=0, opt={"ops": 0x62})] + \
    [_w("reclaim", "proto_" + r, opt={"ops": 0x8c}) for r in ["hp", "he", "qsbr", "ebr", "nebr", "debra"]] + \
    [_w("bounded", "vyukov", opt={"cap": 2}), _w("bounded", "nikolaev", opt={"cap": 2}), _w("bounded", "nikolaev", opt={"cap": 1}),
     _w("kfifo", "kb", opt={"k": 2, "segs": 2}), _w("kfifo", "kb", d=2, opt={"k": 1, "segs": 2}), _w("kfifo", "kf_hp", opt={"k": 2}), _w("kfifo", "kf_ebr", opt={"k": 1}),
     _w("deque", "grow2"), _w("deque", "fixed2"), _w("lr_seqlock", "left_right", c=2), _w("lr_seqlock", "seqlock_b16_s2", c=2, d=2), _w("lr_seqlock", "seqlock_b16_s1", c=2),
     _w("hm", "set_hp", opt={"ops": 0x7, "keys": 1}), _w("hm", "set_ebr", opt={"ops": 0x3, "prefill": 3}), _w("hm", "map_b1_lfrc", opt={"ops": 0x23, "prefill": 2, "keys": 1}),
     _w("hm", "iset_hp", opt={"keys": 2, "m": 1}), _w("hm", "imap_b1_ebr", opt={"keys": 2, "m": 1}),
     _w("vy", "map_st_s1_hp", opt={"m": 1, "keys": 5, "prefill": 31, "cap": 128, "ops": 0x7}), _w("vy", "map_tt_i1_hp", opt={"m": 1, "keys": 4, "prefill": 7, "cap": 1, "ops": 0x7}),
     _w("ownership", "ms_up_hp"), _w("ownership", "ram_e2_up_ebr"), _w("ownership", "nik_e1_up_hp"), _w("ownership", "kf_k2_up_hp"), _w("ownership", "vb_s2_up"), _w("ownership", "nb_c2_up"),
     _w("guards", "snap_hp", c=1), _w("guards", "snap_ebr", c=1), _w("guards", "snap_hp", c=2, opt={"flips": 0}),
     _w("queues", "ms_hp", variant="tsanv"), _w("queues", "ram_e1p1_ebr", variant="tsanv"), _w("queues", "nik_e1p1_hp", variant="tsanv"),
     _w("reclaim", "proto_hp", variant="tsanv", opt={"ops": 0x62}), _w("reclaim", "proto_ebr", variant="tsanv", opt={"ops": 0x62}), _w("reclaim", "proto_stamp", c=0, variant="tsanv", opt={"ops": 0x62}),
     run("queues", "ms_hp", c=2, variant="tsanv"), run("reclaim", "proto_qsbr", c=1, variant="tsanv", opt={"ops": 0xee})] + \
    [_w("queues", "nik_e1p1_ebr", c=2, d=1, weight=2)] + \
    [_w("reclaim", "proto_" + r, c=2, d=1, opt={"ops": 0x22}, weight=1.5) for r in ["hp", "hpd", "he", "hed", "ebr", "qsbr"]] + \
    [run("queues", t, c=1, s=1, weight=0.5) for t in ["ms_hp", "nik_e1p1_ebr", "ram_e1p1_hp"]] + \
    [run("bounded", "vyukov", c=1, s=1, opt={"cap": 2}, weight=0.5), run("bounded", "nikolaev", c=1, s=1, opt={"cap": 2}, weight=0.5),
     run("hm", "set_hp", c=1, s=1, opt={"ops": 0x3, "prefill": 1}, weight=1), run("reclaim", "proto_lfrc", c=1, s=1, opt={"ops": 0x62}, weight=0.5),
     run("reclaim", "proto_hp", c=1, s=1, opt={"ops": 0x162, "allow_update_only": 1}, weight=0.5), run("lr_seqlock", "seqlock_b16_s1", c=2, s=1, weight=0.3)]
_c03_thorough = []
for q in ["ms", "ram_e1p1", "ram_e2p0", "nik_e1p1", "nik_e2p0"]:
    for r in RECL_ALL:
        st = r == "stamp"
        _c03_thorough.append(_w("queues", "%s_%s" % (q, r), c=1 if st else 2, d=1, weight=3))
        if not st:
            _c03_thorough.append(_w("queues", "%s_%s" % (q, r), c=1, d=2, W=64, weight=1))
for r in RECL_ALL:
    st = r == "stamp"
    _c03_thorough.append(_w("reclaim", "proto_" + r, c=1 if st else 2, d=1, opt={"ops": 0x62}, weight=3))
    _c03_thorough.append(_w("reclaim", "proto_" + r, c=1, d=1 if st else 2, W=0, opt={"ops": 0xee}, weight=3))
    _c03_thorough.append(_w("reclaim", "proto_" + r, c=1, d=1, opt={"ops": 0x62, "gens": 2, "m": 1, "allow_update_only": 1}, weight=1))
_c03_thorough += [
    _w("bounded", "vyukov", c=2, opt={"cap": 2}, weight=3), _w("bounded", "nikolaev", c=2, opt={"cap": 2}, weight=3), _w("bounded", "nikolaev", c=1, d=2, W=64, opt={"cap": 1}),
    _w("kfifo", "kb", c=2, opt={"k": 2, "segs": 2}, weight=3), _w("kfifo", "kb", c=1, d=2, W=64, opt={"k": 1, "segs": 2}), _w("kfifo", "kb", c=1, opt={"k": 1, "segs": 2, "T": 3, "m": 2, "prefill": 0}, weight=3),
    _w("kfifo", "kf_hp", c=2, opt={"k": 2}, weight=4), _w("kfifo", "kf_ebr", c=2, opt={"k": 1}, weight=4), _w("kfifo", "kf_qsbr", c=1, d=2, W=64, opt={"k": 2}),
    _w("deque", "grow2", c=2, weight=3), _w("deque", "fixed2", c=2, weight=3), _w("deque", "grow2", c=1, d=2, W=64), _w("deque", "grow2", c=1, opt={"thieves": 2, "s": 1}),
    _w("lr_seqlock", "left_right", c=3, weight=2), _w("lr_seqlock", "left_right", c=2, d=2, W=0), _w("lr_seqlock", "seqlock_b16_s2", c=3, d=2), _w("lr_seqlock", "seqlock_b16_s1", c=3, d=2),
    _w("lr_seqlock", "seqlock_b24_s2", c=2, d=2, W=0), _w("lr_seqlock", "seqlock_b16_s3", c=2, d=2),
    _w("hm", "set_hp", opt={"ops": 0x17}, weight=3), _w("hm", "set_ebr", opt={"ops": 0x17}, weight=3), _w("hm", "set_lfrc", opt={"ops": 0x7}, weight=3), _w("hm", "set_qsbr", opt={"ops": 0x7}, weight=3),
    _w("hm", "map_b1_memo_scr_hp", opt={"ops": 0x23}, weight=3), _w("hm", "map_b1_lfrc", opt={"ops": 0x23}, weight=3), _w("hm", "map_b2_ebr", opt={"ops": 0x23}, weight=3),
    _w("hm", "set_hp", c=2, opt={"ops": 0x7, "keys": 1}, weight=3), _w("hm", "iset_hp", opt={"keys": 2}, weight=3), _w("hm", "iset_ebr", opt={"keys": 2}, weight=3), _w("hm", "imap_b1_memo_scr_hp", opt={"keys": 2}, weight=3),
    _w("vy", "map_tt_i1_hp", opt={"keys": 2, "cap": 1, "ops": 0x7}, weight=3), _w("vy", "map_st_s1_hp", opt={"m": 1, "keys": 5, "prefill": 31, "cap": 128, "ops": 0x27}, weight=3),
    _w("vy", "map_tm_i1_hp", opt={"m": 1, "keys": 5, "prefill": 31, "cap": 128, "ops": 0x27}, weight=3), _w("vy", "it_tt_i1_hp", opt={"steps": 2, "keys": 5, "prefill": 31, "readers": 1, "m": 1}, weight=3),
    _w("vy", "map_tt_i1_ebr", opt={"m": 1, "keys": 4, "prefill": 7, "cap": 1, "ops": 0x7}, weight=3),
] + [_w("ownership", t, weight=1) for t in ["ms_up_hp", "ram_e2_up_ebr", "ram_e1_up_hp", "nik_e1_up_hp", "nik_e2_up_ebr", "kf_k2_up_hp", "kf_k2_up_ebr", "kb_k2s2_up", "vb_s2_up", "nb_c2_up", "ms_up_lfrc"]] + \
    [_w("guards", "snap_" + r, c=2, weight=1) for r in ["hp", "he", "qsbr", "ebr", "nebr", "debra", "lfrc"]] + \
    [_w("queues", "%s_%s" % (q, r), c=1, variant="tsanv", weight=1) for q in ["ms", "ram_e1p1", "nik_e1p1"] for r in ["hp", "he", "qsbr", "ebr", "nebr", "debra", "lfrc"]] + \
    [_w("reclaim", "proto_" + r, c=1, variant="tsanv", opt={"ops": 0x62}, weight=1) for r in RECL_ALL if r != "stamp"] + \
    [run("queues", "%s_%s" % (q, r), c=2, variant="tsanv", weight=3) for q in ["ms", "ram_e1p1", "nik_e1p1"] for r in ["hp", "ebr"]] + \
    [run("reclaim", "proto_" + r, c=1, variant="tsanv", opt={"ops": 0xee}, weight=2) for r in RECL_ALL] + \
    [run("queues", "%s_%s" % (q, r), c=2, s=1, weight=2) for q in ["ms", "ram_e1p1", "nik_e1p1"] for r in ["hp", "ebr", "lfrc"]] + \
    [run("queues", "%s_%s" % (q, r), c=1, s=2, weight=1) for q in ["ms", "nik_e1p1"] for r in ["hp", "stamp"]] + \
    [run("reclaim", "proto_" + r, c=1, s=1, opt={"ops": 0x162, "allow_update_only": 1}, weight=1) for r in RECL_ALL] + \
    [run("bounded", "vyukov", c=2, s=1, opt={"cap": 2}, weight=2), run("bounded", "nikolaev", c=2, s=1, opt={"cap": 2}, weight=2), run("bounded", "nikolaev", c=1, s=2, opt={"cap": 1}, weight=1),
     run("kfifo", "kf_hp", c=1, s=1, r=1, opt={"k": 2}, weight=1), run("kfifo", "kb", c=1, s=1, r=1, opt={"k": 2, "segs": 2}, weight=1),
     run("hm", "set_hp", c=1, s=1, opt={"ops": 0x17}, weight=3), run("hm", "map_b1_lfrc", c=1, s=1, opt={"ops": 0x23}, weight=3), run("hm", "iset_hp", c=1, s=1, opt={"keys": 2}, weight=2),
     run("hm", "set_stamp", c=1, s=1, opt={"ops": 0x3, "prefill": 1}, weight=2),
     run("lr_seqlock", "seqlock_b16_s2", c=3, s=1, weight=1), run("deque", "grow2", c=2, s=1, weight=1), run("vy", "map_tt_i1_hp", c=1, s=1, opt={"keys": 2, "cap": 1, "ops": 0x7}, weight=2)]
PLAN["C03"] = {
    "quick": _c03_quick, "thorough": _c03_thorough, "budget_s": {"quick": 190, "thorough": 1800},
    "rule": "part A (race freedom): the happens-before race detector (vector clocks fed only by the written memory orders, fences, mutexes, spawn/join) is armed in every execution "
            "of every check C01-C18; part B (weak executions): the harness families of C01, C04-C15 re-run in wmm mode - every atomic location keeps its modification order, a "
            "load may read any message not excluded by coherence / happens-before / seq_cst that was superseded at most W steps ago; reads-from choices are enumerated with at "
            "most d stale reads on top of <= c preemptions; precedence between operations of different threads is happens-before; production orders (prod build, explicit fences) "
            "and the TSAN_MEMORY_ORDER variant (tsanv build); part C (spurious failure): a compare_exchange_weak whose comparison succeeds may fail (choice point, at most s = 1..2 "
            "per execution) in the queue, bounded-queue, Harris-Michael, reclaimer and seqlock families; oracles are those of the owning property",
    "assumptions": ["view-based release/acquire + fences + seq_cst model: a strict subset of RC11-consistent executions (no load buffering, no mid-order store insertion; spurious weak CAS failures only in the part C runs; "
                    "seq_cst fences are totally ordered visibility barriers, seq_cst accesses take part in a per-location total order)",
                    "an atomic access after an unordered plain *write* to the same location (constructor initialisation of a std::atomic member) is not reported as a race; the property speaks of plain objects"],
}
LEVEL_TEXT["C03"] = ("every execution of every check runs under the happens-before race detector; in addition all reads-from choices with <= d stale reads (d=1..2) inside the staleness window on "
                     "top of all interleavings with <= c preemptions are enumerated for the harness families of the container and reclaimer properties, for both build variants")
PLAN["C03"]["technique"] = "stateless model checking of the implementation under a view-based C++11 memory model: exhaustive enumeration of schedules (preemption-bounded) and reads-from choices (stale-read-bounded)"

# ------------------------------------------------------------------------------------------------- C16
TITLES["C16"] = "Lock-free operations finish in bounded solo steps from every reachable state"
_SOLO = 1500
_c16_quick = \
    [run("queues", "%s_%s" % (q, r), c=2, solo=_SOLO) for q in ["ms", "ram_e1p1", "nik_e1p1"] for r in ["hp", "lfrc"]] + \
    [run("queues", "%s_%s" % (q, r), c=1, solo=_SOLO) for q in ["ms", "ram_e2p0", "nik_e2p0"] for r in ["ebr", "qsbr", "stamp", "he"]] + \
    [run("reclaim", "proto_" + r, c=1, solo=_SOLO, opt={"ops": 0xee}) for r in ["hp", "he", "qsbr", "ebr", "debra", "lfrc"]] + [run("reclaim", "proto_stamp", c=1, solo=_SOLO, opt={"ops": 0x62})] + \
    [run("bounded", "vyukov", c=2, solo=_SOLO, opt={"cap": 2}), run("bounded", "nikolaev", c=2, solo=_SOLO, opt={"cap": 2}),
     run("kfifo", "kb", c=2, r=0, solo=_SOLO, opt={"k": 2, "segs": 2, "prefill": 1}), run("kfifo", "kf_hp", c=1, r=1, solo=_SOLO, opt={"k": 2}),
     run("kfifo", "kb_boundary", c=0, horizon=16000000, wall=240, solo=_SOLO, opt={"segs": 65537, "fill": 65537, "ops": 70000}),
     run("deque", "grow2", c=2, solo=_SOLO), run("deque", "fixed2", c=2, solo=_SOLO),
     run("lr_seqlock", "left_right", c=3, solo=_SOLO), run("lr_seqlock", "seqlock_b16_s2", c=3, solo=_SOLO), run("lr_seqlock", "seqlock_b16_s3", c=3, solo=_SOLO),
     run("hm", "set_hp", c=2, solo=_SOLO, opt={"ops": 0x7, "keys": 1, "prefill": 1}), run("hm", "map_b1_lfrc", c=2, solo=_SOLO, opt={"ops": 0x23, "keys": 1, "prefill": 1}), run("hm", "iset_hp", c=1, solo=_SOLO, opt={"keys": 2}),
     run("hm", "imap_b1_memo_scr_hp", c=1, solo=_SOLO, opt={"keys": 2, "m": 1}),
     run("vy", "map_st_s1_hp", c=1, solo=_SOLO, opt={"m": 1, "keys": 5, "prefill": 31, "cap": 128, "ops": 0x7}), run("vy", "map_st_s1_hp", c=0, solo=_SOLO, opt={"T": 1, "m": 3, "keys": 5, "cap": 128, "prefill": 15, "ops": 0x3f}),
     run("vy", "map_tm_i1_hp", c=1, solo=_SOLO, opt={"m": 1, "keys": 5, "prefill": 31, "cap": 128, "ops": 0x7}),
     # weak operations reached through the policy-dispatched entry points, three threads, guard snapshots, two thieves, iterators over two buckets
     run("bounded", "vyukov_dw", c=2, solo=_SOLO, opt={"cap": 2}, weight=0.7), run("bounded", "vyukov_api", c=1, solo=_SOLO, opt={"cap": 2}, weight=0.4),
     run("bounded", "vyukov", c=2, solo=_SOLO, opt={"cap": 2, "T": 3, "m": 1, "prefill": 1}, weight=0.7), run("guards", "snap_hp", c=2, solo=_SOLO, weight=0.5),
     run("deque", "grow2", c=1, solo=_SOLO, opt={"thieves": 2, "s": 1}, weight=0.5), run("hm", "imap_b2_31_hp", c=1, solo=_SOLO, opt={"fixed": 2, "nocopy": 1}, weight=0.7)]
_c16_thorough = \
    [run("queues", "%s_%s" % (q, r), c=2, solo=_SOLO, weight=4 if r == "stamp" else 1) for q in ["ms", "ram_e1p1", "ram_e2p0", "nik_e1p1", "nik_e2p0"] for r in RECL_ALL] + \
    [run("queues", "%s_lfrc" % q, c=3, solo=_SOLO, opt={"prefill": 0}, weight=6) for q in ["ms", "ram_e1p1", "nik_e1p1"]] + \
    [run("reclaim", "proto_" + r, c=2, solo=_SOLO, opt={"ops": 0xff}, weight=8 if r == "stamp" else 3) for r in RECL_ALL] + \
    [run("bounded", "vyukov", c=3, solo=_SOLO, opt={"cap": 2}, weight=4), run("bounded", "nikolaev", c=3, solo=_SOLO, opt={"cap": 2}, weight=4),
     run("kfifo", "kb", c=3, r=1, solo=_SOLO, opt={"k": 2, "segs": 2, "prefill": 1}, weight=6), run("kfifo", "kf_hp", c=2, r=1, solo=_SOLO, opt={"k": 2}, weight=6),
     run("kfifo", "kf_ebr", c=2, r=1, solo=_SOLO, opt={"k": 2}, weight=6),
     run("kfifo", "kb_boundary", c=0, horizon=16000000, wall=240, solo=_SOLO, opt={"segs": 65537, "fill": 65537, "ops": 70000}),
     run("deque", "grow2", c=3, solo=_SOLO, weight=4), run("deque", "fixed2", c=3, solo=_SOLO, weight=3), run("deque", "grow2", c=2, solo=_SOLO, opt={"thieves": 2, "s": 1}, weight=3),
     run("lr_seqlock", "left_right", c=4, solo=_SOLO, weight=2), run("lr_seqlock", "seqlock_b16_s2", c=4, solo=_SOLO, weight=2), run("lr_seqlock", "seqlock_b16_s3", c=4, solo=_SOLO, weight=2),
     run("hm", "set_hp", c=2, solo=_SOLO, opt={"ops": 0x17, "keys": 2, "prefill": 1}, weight=4), run("hm", "map_b1_lfrc", c=2, solo=_SOLO, opt={"ops": 0x23, "keys": 2, "prefill": 1}, weight=4),
     run("hm", "iset_hp", c=2, solo=_SOLO, opt={"keys": 2}, weight=4), run("hm", "imap_b1_memo_scr_hp", c=2, solo=_SOLO, opt={"keys": 2}, weight=4), run("hm", "iset_lfrc", c=2, solo=_SOLO, opt={"keys": 2}, weight=4),
     run("vy", "map_st_s1_hp", c=2, solo=_SOLO, opt={"m": 1, "keys": 5, "prefill": 31, "cap": 128, "ops": 0x7}, weight=6), run("vy", "map_tt_i1_hp", c=2, solo=_SOLO, opt={"m": 1, "keys": 5, "prefill": 31, "cap": 128, "ops": 0x7}, weight=6),
     run("vy", "map_sm_s1_hp", c=1, solo=_SOLO, opt={"m": 1, "keys": 5, "prefill": 31, "cap": 128, "ops": 0x27}, weight=4)]
PLAN["C16"] = {
    "quick": _c16_quick, "thorough": _c16_thorough, "budget_s": {"quick": 170, "thorough": 1800},
    "rule": "monitor on the harnesses of C01, C04-C10, C12-C14 for the operations documented as lock-free / wait-free (harnesses flag the blocking ones: strong vyukov operations, "
            "vyukov_hash_map updates and iterators, seqlock store/update and single-slot load, left_right::update): while a thread executes such an operation, every maximal run of "
            "its own steps without interference (from operation start or from the point it is switched in - i.e. every other thread frozen wherever the explored prefix left it, "
            "possibly mid-operation) must reach the end of the operation within S = 1500 scheduler steps; inside such operations a detected spin does not yield, so waiting for "
            "another thread shows up as a PROGRESS violation, never as a hang; the bound on solo steps actually observed is reported (max_solo_steps_of_a_lockfree_op)",
    "assumptions": ["a frozen state is reachable with at most c preemptions; the solo continuation itself costs no preemption only if it is the thread's default continuation - "
                    "states that used the whole budget are covered by the runs with the next larger bound"],
}
LEVEL_TEXT["C16"] = ("for every prefix of every explored interleaving (<= c preemptions) every lock-free operation started or resumed there is run solo to completion under a step bound; "
                     "exhaustive over the enumerated programs and schedules, including complete laps around rings above 2^16 slots")
PLAN["C16"]["technique"] = "stateless model checking of the implementation with a solo-progress monitor: exhaustive preemption-bounded schedule enumeration, every solo continuation step-bounded"
