"""Which explorations decide which property, per tier.  Pure data; read by ./check."""

TITLES = {}
PLAN = {}

RECL_ALL = ["hp", "hpd", "he", "hed", "qsbr", "ebr", "nebr", "debra", "gebr_lazy", "gebr_thr", "stamp", "lfrc", "lfrc_tl"]
RECL_QUICK = ["hp", "ebr", "stamp", "lfrc"]


def run(bin, test, c=2, **kw):
    d = {"bin": bin, "test": test, "c": c}
    d.update(kw)
    return d


# ------------------------------------------------------------------------------------------------- C04
TITLES["C04"] = "michael_scott, ramalhete and nikolaev queues are linearizable FIFO queues"
_q_variants = ["ms", "ram_e1p1", "ram_e2p0", "nik_e1p1", "nik_e2p0"]
_c04_quick = []
for q in _q_variants:
    for r in RECL_QUICK:
        _c04_quick.append(run("queues", "%s_%s" % (q, r), c=1 if r == "stamp" else 2, weight=1.0))
_c04_thorough = []
for q in _q_variants:
    for r in RECL_ALL:
        _c04_thorough.append(run("queues", "%s_%s" % (q, r), c=2, weight=4.0 if r == "stamp" else 1.0))
    # three threads (two producers + consumer etc.), one operation each, c=2
    for r in ["hp", "ebr", "lfrc"]:
        _c04_thorough.append(run("queues", "%s_%s" % (q, r), c=2, opt={"T": 3, "m": 1, "prefill": 1}, weight=1.0))
    # deeper preemption bound on the cheapest reclaimer
    _c04_thorough.append(run("queues", "%s_lfrc" % q, c=3, opt={"prefill": 0}, weight=6.0))
PLAN["C04"] = {
    "quick": _c04_quick,
    "thorough": _c04_thorough,
    "budget_s": {"quick": 170, "thorough": 1500},
    "rule": "programs: T threads x m operations over {push, try_pop} (all assignments, thread-symmetric duplicates and pop-free programs pruned), "
            "0/1 prefilled elements, final drain by T0; node sizes entries_per_node 1|2, pop_retries 0|1; oracle: Wing-Gong linearizability against a "
            "sequential FIFO (std::deque-like) + heap lifetime shadow + happens-before race detector + solo-progress monitor",
    "assumptions": ["values are small distinct integers (raw-pointer queues carry them encoded in never dereferenced pointers)"],
}

LEVEL_TEXT = {}
NOT_APPLICABLE = {}
LEVEL_TEXT["C04"] = ("every interleaving with at most c preemptions (c=2 quick; up to 3 thorough) of every enumerated 2-3 thread push/try_pop program on the real "
                     "queues with node sizes 1-2 is executed and its history checked for linearizability against a FIFO, with use-after-free, race and "
                     "progress monitors armed; exhaustive within the stated bounds, nothing is sampled")
