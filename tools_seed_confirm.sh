#!/bin/bash
# usage: tools_seed_confirm.sh <scratch-worktree> [demo-flags]
# confirms a seeded change in its scratch worktree: the repository's suite passes with the change (rebuilds the gtest
# target if needed), the author's demonstration fails with the change and passes against the unchanged /repo.
wt=$1; shift
flags=${*:--O1 -g -pthread}
log=$wt.confirm.log
{
  echo "== diff"; git -C $wt diff --stat -- xenium
  echo "== suite with the change"
  test -f $wt/_build/build.ninja || cmake -G Ninja -S $wt -B $wt/_build -DCMAKE_BUILD_TYPE=RelWithDebInfo -DGOOGLETEST_ROOT=../../../repo/3rdParty/gtest/googletest >/dev/null
  cmake --build $wt/_build --target gtest -- -j6 2>&1 | tail -2
  timeout 2400 ctest --test-dir $wt/_build -j6 --timeout 1800 2>&1 | tail -4
  echo "== demo with the change"
  g++ -std=c++17 $flags -I$wt $wt/demo/demo.cpp -o $wt/demo/demo_with 2>&1 | tail -3
  for i in 1 2 3; do timeout 120 $wt/demo/demo_with >/dev/null 2>&1; echo "run $i exit=$?"; done
  echo "== demo against the unchanged library (${SEED_BASE:-/repo})"
  g++ -std=c++17 $flags -I${SEED_BASE:-/repo} $wt/demo/demo.cpp -o $wt/demo/demo_without 2>&1 | tail -3
  for i in 1 2 3; do timeout 120 $wt/demo/demo_without >/dev/null 2>&1; echo "run $i exit=$?"; done
} > $log 2>&1
echo done >> $log
