#!/usr/bin/env python3
"""Engine self-tests: every litmus / planted-bug test must give exactly the expected verdict.
usage: ./selftest.py   (exit 0 = engine behaves as specified)"""
import json, subprocess, sys
EXP = {  # test: (sc expectation, wmm expectation); None = no violation, else class
 'self_choose': (None, None), 'self_mutex_ok': (None, None), 'self_spin_deadlock': ('LIVELOCK', 'LIVELOCK'),
 'self_spinlock_ok': (None, None), 'self_uaf': ('*', '*'), 'self_mp_atomic_relacq': (None, None),
 'self_mp_atomic_relaxed': (None, 'ORACLE'), 'self_sb_fence': (None, None), 'self_sc_store_fence': (None, None),
 'self_sb_mixed': (None, 'ORACLE'), 'self_sb_sc': (None, None), 'self_sb_relaxed': (None, 'ORACLE'),
 'self_mp_fence_ok': (None, None), 'self_mp_release_ok': (None, None), 'self_mp_relaxed_race': ('RACE', 'RACE'), 'self_access_after_release': ('RACE', 'RACE'), 'self_access_after_release_rmw': ('RACE', 'RACE'),
 'self_fetch_add_ok': (None, None), 'self_weak_cas_single_shot': (None, None), 'self_accessor_calls': ('ORACLE', 'ORACLE'), 'self_lost_update': ('ORACLE', 'ORACLE'),
}
def run(t, mode, extra=()):
    out = subprocess.run(['./build/selftest.prod', '--test', t, '--c', '2', '--d', '2', '--mode', mode, '--max-vio', '1', *extra],
                         capture_output=True, text=True, timeout=300).stdout.strip().splitlines()[-1]
    j = json.loads(out)
    return j
bad = 0
listed = [l.split()[0] for l in subprocess.run(['./build/selftest.prod', '--list'], capture_output=True, text=True).stdout.splitlines() if l.strip()]
for t in listed:
    if t not in EXP:
        print('UNSPECIFIED selftest', t); bad += 1; continue
    for mi, mode in enumerate(('sc', 'wmm')):
        j = run(t, mode)
        cls = j['violation_records'][0]['cls'] if j['violation_records'] else None
        exp = EXP[t][mi]
        ok = (cls == exp) or (exp == '*' and cls is not None)
        if exp is None and not j['exhaustive']: ok = False
        print(f"{'ok  ' if ok else 'FAIL'} {t:26s} {mode:3s} expected={exp} got={cls} executions={j['executions']} exhaustive={j['exhaustive']}")
        bad += not ok
j = run('self_accessor_calls', 'sc', ('--c', '0'))
ok = not j['violation_records'] and j['exhaustive']
print(f"{'ok  ' if ok else 'FAIL'} self_accessor_calls c=0 -> {[v['cls'] for v in j['violation_records']]} (no false spin-yield)")
bad += not ok
j = run('self_weak_cas_single_shot', 'sc', ('--s', '1'))
ok = bool(j['violation_records']) and j['violation_records'][0]['cls'] == 'ORACLE'
print(f"{'ok  ' if ok else 'FAIL'} self_weak_cas_single_shot s=1 -> {[v['cls'] for v in j['violation_records']]} (spurious failure explored)")
bad += not ok
j = run('self_choose', 'sc', ('--opt', 'plant=1'))
ok = bool(j['violation_records']) and j['violation_records'][0]['cls'] == 'ORACLE'
print(f"{'ok  ' if ok else 'FAIL'} self_choose plant=1 -> {[v['cls'] for v in j['violation_records']]}")
bad += not ok
sys.exit(1 if bad else 0)
