// xmc runtime internals shared between rt.cpp (child-side runtime) and explore.cpp (driver).
#pragma once
#include "xmc.h"
#include <cstdint>
#include <cstddef>

namespace xmc {

enum Kind : uint8_t { K_SCHED = 1, K_DATA = 2, K_RAND = 3, K_RF = 4, K_SPUR = 5 };
// cost modes of a choice point
enum CostMode : uint8_t {
  CM_FREE = 0,     // every alternative is free (DATA, or running thread not enabled)
  CM_PREEMPT = 1,  // alt 0 free, alt>=1 costs one preemption (SCHED) / one deviation (RAND, RF)
  CM_LASTCOSTS = 2 // spin-yield: only the last alternative (keep spinning) costs one preemption
};

struct Point {
  uint8_t kind, arity, cm, chosen;
};

struct Dev { // one non-default decision of a prefix
  uint32_t idx;
  uint8_t alt, kind, arity, pad;
};

enum Verdict : int {
  V_OK = 0,
  V_PRUNED = 1,
  V_VIOLATION = 2, // cls/msg filled
  V_NONDET = 3,    // replay divergence: engine error
  V_ENGINE = 4     // internal limit exceeded: engine error
};

constexpr int MAXPOINTS = 1 << 16;
constexpr int MAXDEV = 64;
constexpr int TEXTSZ = 16384;

struct Result {
  volatile int started;
  volatile int finished; // child reached an orderly end (any verdict)
  int verdict;
  char cls[32];
  char msg[1024];
  uint64_t steps;
  uint64_t plain;
  uint64_t trace_hash;
  uint64_t hist_hash;
  int nontrivial;
  int nops;
  int max_solo; // C16: largest number of solo steps any lock-free operation needed
  uint32_t npoints;
  Point points[MAXPOINTS];
  char hist[TEXTSZ];
  char notes[TEXTSZ];
};

struct RunCfg {
  int mode;      // 0 sc, 1 wmm
  int W;         // staleness window (steps); 0 = unbounded
  int heap_reuse;
  int spur; // > 0: a compare_exchange_weak that would succeed may fail spuriously (choice kind K_SPUR, bounded by the explorer)
  long horizon;  // scheduler steps
  long plain_horizon;
  int solo_limit; // C16: max solo steps of a lock-free op
  int trace;     // verbose step trace to stderr (replay)
  int wall_limit_s;
  int nopt;
  char optk[32][32];
  long optv[32];
};

extern RunCfg g_cfg;

// child entry: runs one execution of test `t` with the given deviations; never returns
[[noreturn]] void run_child(Test* t, const Dev* devs, int ndev, Result* res);

Test* test_list();
void rt_global_init(); // arena etc. (idempotent)

} // namespace xmc
