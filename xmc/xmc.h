// xmc — bounded-exhaustive stateless model checker for real C++11 code.
// Harness-facing API.  Harness TUs are compiled with -fsanitize=thread but linked against
// xmc/rt.cpp instead of the TSan runtime (see DESIGN.md §2).
#pragma once
#include <cstddef>
#include <cstdint>
#include <cstdio>
#include <exception>
#include <functional>
#include <string>
#include <utility>

namespace xmc {

constexpr int MAXT = 16; // virtual threads per execution (T0 included)

// ---------------------------------------------------------------- choices
int choose(int n);      // DATA choice in [0,n): fully enumerated, cost 0
int choose_rand(int n); // RAND choice in [0,n): alternatives != 0 cost one "random deviation"
void set_rand_domain(int n); // domain of xenium::utils::random() (hook XENIUM_VERIF): values 0..n-1, default 1
int rand_domain();

// ---------------------------------------------------------------- threads
int spawn_raw(void (*fn)(void*), void* arg);
void join(int tid);
void join_all(); // joins every thread spawned by the caller that is not joined yet
int self();      // virtual thread id (0 = harness main thread)

[[noreturn]] void fail(const char* cls, const char* fmt, ...) __attribute__((format(printf, 2, 3)));
namespace detail {
inline void thread_tramp(void* p) {
  auto* f = static_cast<std::function<void()>*>(p);
  try {
    (*f)();
  } catch (const std::exception& e) {
    fail("EXCEPTION", "uncaught exception in thread: %s", e.what());
  } catch (...) {
    fail("EXCEPTION", "uncaught exception in thread");
  }
  delete f;
}
} // namespace detail
inline int spawn(std::function<void()> f) {
  auto* p = new std::function<void()>(std::move(f));
  return spawn_raw(&detail::thread_tramp, p);
}

// ---------------------------------------------------------------- verdicts
[[noreturn]] void fail(const char* cls, const char* fmt, ...) __attribute__((format(printf, 2, 3)));
[[noreturn]] void prune();                    // abandon this execution as irrelevant (not a violation)
void note(const char* fmt, ...) __attribute__((format(printf, 1, 2))); // free text kept with the execution (replays, samples)
void mark_nontrivial();                       // harness says: this execution exercised the interesting path

// ---------------------------------------------------------------- history
// An operation = [op_begin, op_end] on the calling thread.  `lockfree` marks operations whose
// documentation promises lock-free progress (C16 monitor).
struct Event {
  int tid;
  int op;
  long a0, a1;   // arguments
  long r0, r1;   // results
  uint64_t inv;  // global step at invocation
  uint64_t res;  // global step at response (0 while pending)
  uint32_t inv_vc[MAXT];
  uint32_t res_vc[MAXT];
  bool done;
};
int op_begin(int op, long a0 = 0, long a1 = 0, bool lockfree = true);
void op_end(long r0 = 0, long r1 = 0);
int history_size();
void history_reset(); // forget the recorded operations (long sequential conformance runs that check on the fly)
const Event& history_at(int i);
bool hb_mode(); // true in wmm mode: precedence between operations is happens-before (vector clocks)
// a precedes b (a's response before b's invocation, by step in sc mode, by hb in wmm mode)
bool precedes(const Event& a, const Event& b);
void set_op_names(const char* const* names, int n);
// a call that is documented lock-free but is not recorded as an operation of the history (an iterator step between two recorded yields): the C16 monitor
// counts its solo steps exactly as inside op_begin(..., lockfree = true)
void lf_begin(const char* what);
void lf_end();
struct LockFree {
  explicit LockFree(const char* what) { lf_begin(what); }
  ~LockFree() { lf_end(); }
};

// ---------------------------------------------------------------- ledger (uninstrumented counters)
constexpr int NCELLS = 1 << 16;
long cell_get(int i);
void cell_set(int i, long v);
long cell_add(int i, long d); // returns new value

// ---------------------------------------------------------------- run options visible to harnesses
long opt(const char* key, long dflt); // --opt key=value from the command line
bool heap_reuse_mode();
uint64_t steps(); // scheduler steps so far
void progress();  // harness-side loops that only read: tells the spin detector that a new iteration has begun (see rt.cpp)
void point();     // explicit scheduling point: the calling thread may be preempted here (models "some time later")

// heap census: number / bytes of live arena allocations, optionally only those made while `tag` was set
struct HeapStats {
  long live_blocks;
  long live_bytes;
  long total_allocs;
};
HeapStats heap_stats();
int heap_tag(int tag); // sets the current thread's allocation tag, returns previous
long heap_live_with_tag(int tag);
bool heap_is_live(const void* p);
void heap_note_live(int tag);     // lists the live blocks carrying `tag` in the execution's notes // p points into a live arena block

// ---------------------------------------------------------------- registry
struct Test {
  const char* name;
  void (*fn)();
  const char* desc;
  Test* next;
  Test(const char* n, void (*f)(), const char* d);
};

} // namespace xmc

#define XMC_CAT_(a, b) a##b
#define XMC_CAT(a, b) XMC_CAT_(a, b)
#define XMC_TEST(ident, desc)                                        \
  static void XMC_CAT(xmc_test_fn_, ident)();                        \
  static ::xmc::Test XMC_CAT(xmc_test_reg_, ident)(#ident, &XMC_CAT(xmc_test_fn_, ident), desc); \
  static void XMC_CAT(xmc_test_fn_, ident)()

// Registration of a template instantiation under an explicit name
#define XMC_TEST_FN(name_str, fnptr, desc) static ::xmc::Test XMC_CAT(xmc_test_regf_, __COUNTER__)(name_str, fnptr, desc)
