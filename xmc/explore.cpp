// xmc explorer: iterative deviation-bounded enumeration of the choice tree.  A master process forks
// W workers; each worker pops a prefix from a shared LIFO, forks one child per execution, reads the
// child's recorded choice points from shared memory and pushes every alternative within the bounds.
// Compiled WITHOUT -fsanitize=thread.
#include "rt_internal.h"

#include <cerrno>
#include <csignal>
#include <cstdio>
#include <cstdlib>
#include <cstring>
#include <ctime>
#include <fnmatch.h>
#include <sched.h>
#include <sys/mman.h>
#include <sys/personality.h>
#include <sys/wait.h>
#include <unistd.h>

namespace xmc {

struct Item {
  uint16_t ndev;
  uint8_t cp, cd, cr, cs;
  uint32_t from; // first choice point at which a new deviation may be introduced
  Dev devs[MAXDEV];
};

struct VioRec {
  char test[96];
  char cls[32];
  char msg[1024];
  int known;
  int verdict;
  int level;
  uint16_t ndev;
  Dev devs[MAXDEV];
  char hist[4096];
  char notes[4096];
};

struct Sample {
  uint16_t ndev;
  Dev devs[MAXDEV];
  uint32_t npoints;
  uint64_t steps;
  char hist[2048];
  char notes[1024];
};

constexpr int MAXVIO = 32;
constexpr int MAXSAMPLES = 4;
constexpr size_t STACK_CAP = 1u << 20;
constexpr int HSET_BITS = 22;

struct Shared {
  volatile int lock;
  volatile int stop;       // stop everything (violation limit reached / fatal)
  volatile int deadline_hit;
  size_t top;
  int active;
  // statistics of the current level
  uint64_t execs, pruned, new_points, steps, plain, double_runs, nontrivial_execs;
  uint64_t vio_total, vio_known, engine_errors;
  uint64_t max_points, max_steps;
  int max_solo;
  uint64_t distinct_hist, distinct_nontrivial;
  uint64_t verdict_count[8];
  int nvio;
  VioRec vio[MAXVIO];
  int nsamples;
  Sample samples[MAXSAMPLES];
  uint64_t hset[1u << HSET_BITS];
};

static Shared* S;
static Item* STACK;
static Result* RES; // one per worker

struct Opts {
  const char* test = nullptr;
  int c = 2, d = 0, r = 0, s = 0;
  int iterate = 1;
  int workers = 16;
  double deadline = 0;
  const char* json = nullptr;
  const char* known_file = nullptr;
  const char* replay = nullptr;
  int max_vio = 1;
  int double_every = 500;
  int list = 0;
};
static Opts O;
static double g_t0;
static char g_known[64][256];
static int g_nknown;

static double now() {
  struct timespec ts;
  clock_gettime(CLOCK_MONOTONIC, &ts);
  return ts.tv_sec + ts.tv_nsec * 1e-9;
}
static void lock() {
  while (__atomic_exchange_n(&S->lock, 1, __ATOMIC_ACQUIRE)) {
    while (__atomic_load_n(&S->lock, __ATOMIC_RELAXED)) __builtin_ia32_pause();
  }
}
static void unlock() { __atomic_store_n(&S->lock, 0, __ATOMIC_RELEASE); }

static bool hset_insert(uint64_t h, bool nontrivial) {
  // value encodes the hash with the low bit = nontrivial flag seen; returns true if newly inserted
  h |= 2; // never 0
  h &= ~1ULL;
  uint32_t i = (h * 0x9E3779B97F4A7C15ULL) >> (64 - HSET_BITS);
  for (unsigned probes = 0; probes < (1u << HSET_BITS); probes++) {
    uint64_t cur = __atomic_load_n(&S->hset[i], __ATOMIC_RELAXED);
    if (cur == 0) {
      uint64_t exp = 0;
      if (__atomic_compare_exchange_n(&S->hset[i], &exp, h | (nontrivial ? 1 : 0), false, __ATOMIC_RELAXED, __ATOMIC_RELAXED)) {
        __atomic_fetch_add(&S->distinct_hist, 1, __ATOMIC_RELAXED);
        if (nontrivial) __atomic_fetch_add(&S->distinct_nontrivial, 1, __ATOMIC_RELAXED);
        return true;
      }
      cur = exp;
    }
    if ((cur & ~1ULL) == h) {
      if (nontrivial && !(cur & 1)) {
        if (__atomic_compare_exchange_n(&S->hset[i], &cur, cur | 1, false, __ATOMIC_RELAXED, __ATOMIC_RELAXED))
          __atomic_fetch_add(&S->distinct_nontrivial, 1, __ATOMIC_RELAXED);
      }
      return false;
    }
    i = (i + 1) & ((1u << HSET_BITS) - 1);
  }
  return false;
}

static bool is_known(const char* test, const char* cls, const char* msg) {
  char sig[1400];
  snprintf(sig, sizeof sig, "%s|%s|%s", test, cls, msg);
  for (int i = 0; i < g_nknown; i++)
    if (fnmatch(g_known[i], sig, 0) == 0) return true;
  return false;
}

// run one execution in a forked child; returns false on fork failure
static bool execute(Test* t, const Item& it, Result* res) {
  res->started = 0;
  res->finished = 0;
  res->npoints = 0;
  res->verdict = -1;
  pid_t pid = fork();
  if (pid < 0) return false;
  if (pid == 0) run_child(t, it.devs, it.ndev, res);
  int st = 0;
  while (waitpid(pid, &st, 0) < 0 && errno == EINTR) {}
  if (!res->finished) {
    // died without an orderly verdict
    res->verdict = V_VIOLATION;
    snprintf(res->cls, sizeof res->cls, "CRASH");
    if (WIFSIGNALED(st))
      snprintf(res->msg, sizeof res->msg, "child killed by signal %d", WTERMSIG(st));
    else
      snprintf(res->msg, sizeof res->msg, "child exited with status %d without a verdict", WEXITSTATUS(st));
  }
  return true;
}

static void record_violation(Test* t, const Item& it, Result* res, int level, bool known) {
  lock();
  S->vio_total++;
  if (known) S->vio_known++;
  // keep one record per (cls, known) pair first, then fill
  bool dup = false;
  for (int i = 0; i < S->nvio; i++)
    if (!strcmp(S->vio[i].cls, res->cls) && !strcmp(S->vio[i].msg, res->msg)) dup = true;
  if (!dup && S->nvio < MAXVIO) {
    VioRec& v = S->vio[S->nvio++];
    snprintf(v.test, sizeof v.test, "%s", t->name);
    snprintf(v.cls, sizeof v.cls, "%s", res->cls);
    snprintf(v.msg, sizeof v.msg, "%s", res->msg);
    v.known = known;
    v.verdict = res->verdict;
    v.level = level;
    v.ndev = it.ndev;
    memcpy(v.devs, it.devs, sizeof(Dev) * it.ndev);
    snprintf(v.hist, sizeof v.hist, "%s", res->hist);
    snprintf(v.notes, sizeof v.notes, "%s", res->notes);
  }
  unlock();
}

static void worker_loop(Test* t, int wid, int level_c) {
  Result* res = &RES[wid];
  cpu_set_t cs;
  CPU_ZERO(&cs);
  long ncpu = sysconf(_SC_NPROCESSORS_ONLN);
  CPU_SET(wid % ncpu, &cs);
  sched_setaffinity(0, sizeof cs, &cs);
  uint64_t local_n = 0;
  Item it;
  for (;;) {
    bool got = false;
    lock();
    if (S->top > 0 && !S->stop && !S->deadline_hit) {
      it = STACK[--S->top];
      S->active++;
      got = true;
    }
    int active = S->active;
    size_t top = S->top;
    unlock();
    if (!got) {
      if (S->stop || S->deadline_hit || (active == 0 && top == 0)) return;
      usleep(200);
      continue;
    }
    if (O.deadline > 0 && now() - g_t0 > O.deadline) S->deadline_hit = 1;
    if (!execute(t, it, res)) {
      S->stop = 1;
      __atomic_fetch_add(&S->engine_errors, 1, __ATOMIC_RELAXED);
      lock();
      S->active--;
      unlock();
      return;
    }
    local_n++;
    uint32_t np = res->npoints;
    int verdict = res->verdict;
    // determinism self-check: run the same prefix again and compare
    if (O.double_every && (local_n % O.double_every) == 1 && verdict != V_NONDET) {
      uint64_t h1 = res->trace_hash, hh1 = res->hist_hash;
      uint32_t np1 = np;
      int v1 = verdict;
      static Result* res2 = nullptr;
      if (!res2) res2 = static_cast<Result*>(mmap(nullptr, sizeof(Result), PROT_READ | PROT_WRITE, MAP_SHARED | MAP_ANONYMOUS, -1, 0));
      execute(t, it, res2);
      __atomic_fetch_add(&S->double_runs, 1, __ATOMIC_RELAXED);
      if (res2->verdict != v1 || res2->npoints != np1 || (v1 == V_OK && (res2->trace_hash != h1 || res2->hist_hash != hh1))) {
        verdict = res->verdict = V_NONDET;
        snprintf(res->cls, sizeof res->cls, "NONDET");
        snprintf(res->msg, sizeof res->msg, "two runs of the same schedule differ (verdict %d/%d, points %u/%u, trace %lx/%lx)", v1,
                 res2->verdict, np1, res2->npoints, (unsigned long)h1, (unsigned long)res2->trace_hash);
      }
    }
    __atomic_fetch_add(&S->execs, 1, __ATOMIC_RELAXED);
    __atomic_fetch_add(&S->steps, res->steps, __ATOMIC_RELAXED);
    __atomic_fetch_add(&S->verdict_count[verdict & 7], 1, __ATOMIC_RELAXED);
    if (np > it.from) __atomic_fetch_add(&S->new_points, np - it.from, __ATOMIC_RELAXED);
    bool expand = true;
    if (verdict == V_OK) {
      if (res->nontrivial) __atomic_fetch_add(&S->nontrivial_execs, 1, __ATOMIC_RELAXED);
      bool fresh = hset_insert(res->hist_hash, res->nontrivial != 0);
      if (fresh && S->nsamples < MAXSAMPLES && (res->nontrivial || S->nsamples == 0)) {
        lock();
        if (S->nsamples < MAXSAMPLES) {
          Sample& sm = S->samples[S->nsamples++];
          sm.ndev = it.ndev;
          memcpy(sm.devs, it.devs, sizeof(Dev) * it.ndev);
          sm.npoints = np;
          sm.steps = res->steps;
          snprintf(sm.hist, sizeof sm.hist, "%s", res->hist);
          snprintf(sm.notes, sizeof sm.notes, "%s", res->notes);
        }
        unlock();
      }
    } else if (verdict == V_PRUNED) {
      __atomic_fetch_add(&S->pruned, 1, __ATOMIC_RELAXED);
    } else if (verdict == V_VIOLATION) {
      bool known = is_known(t->name, res->cls, res->msg);
      record_violation(t, it, res, level_c, known);
      if (!known && (int)(S->vio_total - S->vio_known) >= O.max_vio) S->stop = 1;
    } else {
      // engine error / nondeterminism: fatal
      record_violation(t, it, res, level_c, false);
      __atomic_fetch_add(&S->engine_errors, 1, __ATOMIC_RELAXED);
      S->stop = 1;
      expand = false;
    }
    // update maxima
    lock();
    if (np > S->max_points) S->max_points = np;
    if (res->steps > S->max_steps) S->max_steps = res->steps;
    if (res->max_solo > S->max_solo) S->max_solo = res->max_solo;
    // expand: every alternative at or after it.from that stays within the bounds
    if (expand && !S->stop) {
      for (uint32_t i = np; i-- > it.from;) { // push deeper points last => explored first? LIFO: push shallow first
        const Point& p = res->points[i];
        for (int alt = p.arity - 1; alt >= 1; alt--) {
          int cp = it.cp, cd = it.cd, cr = it.cr, cs = it.cs;
          bool costs = (p.cm == CM_PREEMPT) || (p.cm == CM_LASTCOSTS && alt == p.arity - 1);
          if (costs) {
            if (p.kind == K_SCHED) cp++;
            else if (p.kind == K_RF) cd++;
            else if (p.kind == K_RAND) cr++;
            else if (p.kind == K_SPUR) cs++;
          }
          if (cp > level_c || cd > O.d || cr > O.r || cs > O.s) continue;
          if (it.ndev >= MAXDEV) {
            S->engine_errors++;
            S->stop = 1;
            break;
          }
          if (S->top >= STACK_CAP) {
            S->engine_errors++;
            S->stop = 1;
            break;
          }
          Item& n = STACK[S->top++];
          n.ndev = it.ndev + 1;
          memcpy(n.devs, it.devs, sizeof(Dev) * it.ndev);
          Dev& d = n.devs[it.ndev];
          d.idx = i;
          d.alt = uint8_t(alt);
          d.kind = p.kind;
          d.arity = p.arity;
          d.pad = 0;
          n.cp = uint8_t(cp);
          n.cd = uint8_t(cd);
          n.cr = uint8_t(cr);
          n.cs = uint8_t(cs);
          n.from = i + 1;
        }
      }
    }
    S->active--;
    unlock();
  }
}

static void json_str(FILE* f, const char* s) {
  fputc('"', f);
  for (; *s; s++) {
    unsigned char c = *s;
    if (c == '"' || c == '\\') fprintf(f, "\\%c", c);
    else if (c == '\n') fputs("\\n", f);
    else if (c < 0x20) fprintf(f, "\\u%04x", c);
    else fputc(c, f);
  }
  fputc('"', f);
}
static void json_devs(FILE* f, const Dev* d, int n) {
  fputc('"', f);
  for (int i = 0; i < n; i++) fprintf(f, "%s%u:%u:%u:%u", i ? "," : "", d[i].idx, d[i].alt, d[i].kind, d[i].arity);
  fputc('"', f);
}

static int parse_devs(const char* s, Dev* d) {
  int n = 0;
  while (*s && n < MAXDEV) {
    unsigned idx, alt, kind, ar;
    int used = 0;
    if (sscanf(s, "%u:%u:%u:%u%n", &idx, &alt, &kind, &ar, &used) != 4) break;
    d[n].idx = idx;
    d[n].alt = uint8_t(alt);
    d[n].kind = uint8_t(kind);
    d[n].arity = uint8_t(ar);
    d[n].pad = 0;
    n++;
    s += used;
    if (*s == ',') s++;
  }
  return n;
}

static Test* find_test(const char* name) {
  for (Test* t = test_list(); t; t = t->next)
    if (!strcmp(t->name, name)) return t;
  return nullptr;
}

static int run_replay(Test* t) {
  Item it;
  memset(&it, 0, sizeof it);
  it.ndev = uint16_t(parse_devs(O.replay, it.devs));
  Result* res = static_cast<Result*>(mmap(nullptr, sizeof(Result), PROT_READ | PROT_WRITE, MAP_SHARED | MAP_ANONYMOUS, -1, 0));
  uint64_t h[2];
  int v[2];
  if (getenv("XMC_BENCH")) {
    int n = atoi(getenv("XMC_BENCH"));
    double t0 = now();
    for (int k = 0; k < n; k++) execute(t, it, res);
    printf("bench: %.1f us per execution (steps=%lu)\n", (now() - t0) / n * 1e6, (unsigned long)res->steps);
    return 0;
  }
  for (int k = 0; k < 2; k++) {
    int save = g_cfg.trace;
    if (k == 1) g_cfg.trace = 0;
    execute(t, it, res);
    g_cfg.trace = save;
    h[k] = res->trace_hash;
    v[k] = res->verdict;
  }
  printf("replay test=%s verdict=%d cls=%s points=%u steps=%lu deterministic=%s\n", t->name, res->verdict, res->cls, res->npoints,
         (unsigned long)res->steps, (h[0] == h[1] && v[0] == v[1]) ? "yes" : "NO");
  if (res->msg[0]) printf("message: %s\n", res->msg);
  printf("history: %s\n", res->hist);
  if (res->notes[0]) printf("notes:\n%s", res->notes);
  if (res->verdict == V_VIOLATION) {
    printf("VIOLATION-REPLAYED cls=%s\n", res->cls);
    return 1;
  }
  return res->verdict == V_OK || res->verdict == V_PRUNED ? 0 : 2;
}

static int run_explore(Test* t) {
  S = static_cast<Shared*>(mmap(nullptr, sizeof(Shared), PROT_READ | PROT_WRITE, MAP_SHARED | MAP_ANONYMOUS | MAP_NORESERVE, -1, 0));
  STACK = static_cast<Item*>(mmap(nullptr, sizeof(Item) * STACK_CAP, PROT_READ | PROT_WRITE, MAP_SHARED | MAP_ANONYMOUS | MAP_NORESERVE, -1, 0));
  RES = static_cast<Result*>(mmap(nullptr, sizeof(Result) * O.workers, PROT_READ | PROT_WRITE, MAP_SHARED | MAP_ANONYMOUS | MAP_NORESERVE, -1, 0));
  if (S == MAP_FAILED || STACK == MAP_FAILED || RES == MAP_FAILED) {
    perror("mmap");
    return 2;
  }
  FILE* jf = O.json ? fopen(O.json, "w") : stdout;
  if (!jf) {
    perror("json");
    return 2;
  }
  g_t0 = now();
  fprintf(jf, "{\"test\":");
  json_str(jf, t->name);
  fprintf(jf, ",\"desc\":");
  json_str(jf, t->desc ? t->desc : "");
  fprintf(jf, ",\"mode\":\"%s\",\"W\":%d,\"heap\":\"%s\",\"bounds\":{\"c\":%d,\"d\":%d,\"r\":%d,\"s\":%d},\"horizon\":%ld,\"levels\":[",
          g_cfg.mode ? "wmm" : "sc", g_cfg.W, g_cfg.heap_reuse ? "reuse" : "quarantine", O.c, O.d, O.r, O.s, g_cfg.horizon);
  int completed = -1;
  bool stopped = false;
  uint64_t tot_execs = 0, tot_points = 0, tot_steps = 0, tot_double = 0, tot_pruned = 0;
  int first = 1;
  for (int level = O.iterate ? 0 : O.c; level <= O.c && !stopped; level++) {
    // reset per-level state but keep violations/samples
    S->top = 0;
    S->active = 0;
    S->execs = S->pruned = S->new_points = S->steps = S->double_runs = S->nontrivial_execs = 0;
    S->distinct_hist = S->distinct_nontrivial = 0;
    memset(S->hset, 0, sizeof S->hset);
    memset((void*)S->verdict_count, 0, sizeof S->verdict_count);
    Item root;
    memset(&root, 0, sizeof root);
    STACK[S->top++] = root;
    double tl = now();
    pid_t pids[256];
    for (int w = 0; w < O.workers; w++) {
      pid_t p = fork();
      if (p == 0) {
        worker_loop(t, w, level);
        _exit(0);
      }
      pids[w] = p;
    }
    for (int w = 0; w < O.workers; w++) {
      int st;
      waitpid(pids[w], &st, 0);
      if (!WIFEXITED(st) || WEXITSTATUS(st) != 0) {
        S->engine_errors++;
        S->stop = 1;
      }
    }
    bool complete = !S->stop && !S->deadline_hit && S->top == 0;
    if (complete) completed = level;
    fprintf(jf,
            "%s{\"c\":%d,\"complete\":%s,\"executions\":%lu,\"pruned\":%lu,\"choice_points\":%lu,\"steps\":%lu,\"distinct_histories\":%lu,"
            "\"distinct_nontrivial\":%lu,\"nontrivial_executions\":%lu,\"double_runs\":%lu,\"wall_s\":%.2f}",
            first ? "" : ",", level, complete ? "true" : "false", (unsigned long)S->execs, (unsigned long)S->pruned,
            (unsigned long)S->new_points, (unsigned long)S->steps, (unsigned long)S->distinct_hist, (unsigned long)S->distinct_nontrivial,
            (unsigned long)S->nontrivial_execs, (unsigned long)S->double_runs, now() - tl);
    first = 0;
    tot_execs += S->execs;
    tot_points += S->new_points;
    tot_steps += S->steps;
    tot_double += S->double_runs;
    tot_pruned += S->pruned;
    if (S->stop || S->deadline_hit) stopped = true;
  }
  fprintf(jf,
          "],\"completed_c\":%d,\"exhaustive\":%s,\"deadline_hit\":%s,\"executions\":%lu,\"pruned\":%lu,\"choice_points\":%lu,\"steps\":%lu,"
          "\"double_runs\":%lu,\"distinct_histories\":%lu,\"distinct_nontrivial\":%lu,\"max_points\":%lu,\"max_steps\":%lu,\"max_solo\":%d,"
          "\"violations\":%lu,\"known\":%lu,\"engine_errors\":%lu,\"wall_s\":%.2f,\"violation_records\":[",
          completed, completed == O.c ? "true" : "false", S->deadline_hit ? "true" : "false", (unsigned long)tot_execs,
          (unsigned long)tot_pruned, (unsigned long)tot_points, (unsigned long)tot_steps, (unsigned long)tot_double,
          (unsigned long)S->distinct_hist, (unsigned long)S->distinct_nontrivial, (unsigned long)S->max_points,
          (unsigned long)S->max_steps, S->max_solo, (unsigned long)(S->vio_total - S->vio_known), (unsigned long)S->vio_known,
          (unsigned long)S->engine_errors, now() - g_t0);
  for (int i = 0; i < S->nvio; i++) {
    VioRec& v = S->vio[i];
    fprintf(jf, "%s{\"test\":", i ? "," : "");
    json_str(jf, v.test);
    fprintf(jf, ",\"cls\":");
    json_str(jf, v.cls);
    fprintf(jf, ",\"msg\":");
    json_str(jf, v.msg);
    fprintf(jf, ",\"known\":%s,\"verdict\":%d,\"level\":%d,\"devs\":", v.known ? "true" : "false", v.verdict, v.level);
    json_devs(jf, v.devs, v.ndev);
    fprintf(jf, ",\"history\":");
    json_str(jf, v.hist);
    fprintf(jf, ",\"notes\":");
    json_str(jf, v.notes);
    fprintf(jf, "}");
  }
  fprintf(jf, "],\"samples\":[");
  for (int i = 0; i < S->nsamples; i++) {
    Sample& sm = S->samples[i];
    fprintf(jf, "%s{\"devs\":", i ? "," : "");
    json_devs(jf, sm.devs, sm.ndev);
    fprintf(jf, ",\"choice_points\":%u,\"steps\":%lu,\"history\":", sm.npoints, (unsigned long)sm.steps);
    json_str(jf, sm.hist);
    fprintf(jf, ",\"notes\":");
    json_str(jf, sm.notes);
    fprintf(jf, "}");
  }
  fprintf(jf, "]}\n");
  if (jf != stdout) fclose(jf);
  if (S->engine_errors) return 2;
  if (S->vio_total - S->vio_known > 0) return 1;
  return 0;
}

} // namespace xmc

using namespace xmc;

static void usage() {
  fprintf(stderr,
          "usage: <harness> --list | --test NAME [--c N] [--d N] [--r N] [--mode sc|wmm] [--W N] [--heap quarantine|reuse]\n"
          "       [--horizon N] [--solo N] [--workers N] [--deadline SEC] [--json FILE] [--known FILE] [--max-vio N]\n"
          "       [--no-iterate] [--opt k=v]... [--replay DEVS [--trace]]\n");
}

int main(int argc, char** argv) {
  // deterministic addresses: disable ASLR and re-exec once
  int pers = personality(0xffffffff);
  if (pers != -1 && !(pers & ADDR_NO_RANDOMIZE) && !getenv("XMC_NO_REEXEC")) {
    personality(pers | ADDR_NO_RANDOMIZE);
    setenv("XMC_NO_REEXEC", "1", 1);
    execv("/proc/self/exe", argv);
  }
  g_cfg.mode = 0;
  g_cfg.W = 16;
  g_cfg.heap_reuse = 0;
  g_cfg.spur = 0;
  g_cfg.horizon = 100000;
  g_cfg.plain_horizon = 20000000;
  g_cfg.solo_limit = 5000;
  g_cfg.wall_limit_s = 120;
  for (int i = 1; i < argc; i++) {
    auto arg = [&](const char* n) { return !strcmp(argv[i], n) && i + 1 < argc; };
    if (!strcmp(argv[i], "--list")) O.list = 1;
    else if (arg("--test")) O.test = argv[++i];
    else if (arg("--c")) O.c = atoi(argv[++i]);
    else if (arg("--d")) O.d = atoi(argv[++i]);
    else if (arg("--r")) O.r = atoi(argv[++i]);
    else if (arg("--s")) O.s = g_cfg.spur = atoi(argv[++i]);
    else if (arg("--mode")) g_cfg.mode = !strcmp(argv[++i], "wmm");
    else if (arg("--W")) g_cfg.W = atoi(argv[++i]);
    else if (arg("--heap")) g_cfg.heap_reuse = !strcmp(argv[++i], "reuse");
    else if (arg("--horizon")) g_cfg.horizon = atol(argv[++i]);
    else if (arg("--solo")) g_cfg.solo_limit = atoi(argv[++i]);
    else if (arg("--workers")) O.workers = atoi(argv[++i]);
    else if (arg("--deadline")) O.deadline = atof(argv[++i]);
    else if (arg("--json")) O.json = argv[++i];
    else if (arg("--known")) O.known_file = argv[++i];
    else if (arg("--max-vio")) O.max_vio = atoi(argv[++i]);
    else if (arg("--double-every")) O.double_every = atoi(argv[++i]);
    else if (!strcmp(argv[i], "--no-iterate")) O.iterate = 0;
    else if (arg("--replay")) O.replay = argv[++i];
    else if (!strcmp(argv[i], "--trace")) g_cfg.trace = 1;
    else if (arg("--wall")) g_cfg.wall_limit_s = atoi(argv[++i]);
    else if (arg("--plain-horizon")) g_cfg.plain_horizon = atol(argv[++i]);
    else if (arg("--opt")) {
      char* kv = argv[++i];
      char* eq = strchr(kv, '=');
      if (eq && g_cfg.nopt < 32) {
        *eq = 0;
        snprintf(g_cfg.optk[g_cfg.nopt], 32, "%s", kv);
        g_cfg.optv[g_cfg.nopt++] = strtol(eq + 1, nullptr, 0);
      }
    } else {
      usage();
      return 2;
    }
  }
  if (O.list) {
    for (Test* t = test_list(); t; t = t->next) printf("%s\t%s\n", t->name, t->desc ? t->desc : "");
    return 0;
  }
  if (!O.test) {
    usage();
    return 2;
  }
  Test* t = find_test(O.test);
  if (!t) {
    fprintf(stderr, "unknown test %s\n", O.test);
    return 2;
  }
  if (O.workers < 1) O.workers = 1;
  if (O.workers > 64) O.workers = 64;
  if (O.known_file) {
    FILE* f = fopen(O.known_file, "r");
    if (f) {
      char line[256];
      while (g_nknown < 64 && fgets(line, sizeof line, f)) {
        line[strcspn(line, "\n")] = 0;
        if (line[0] && line[0] != '#') snprintf(g_known[g_nknown++], 256, "%s", line);
      }
      fclose(f);
    }
  }
  rt_global_init();
  if (O.replay) return run_replay(t);
  return run_explore(t);
}
