// xmc runtime (child side): our own implementation of the TSan compiler-instrumentation interface,
// a serialising scheduler with recorded choice points, a C++11 happens-before / weak-memory layer,
// a quarantining heap with lifetime shadow and a vector-clock race detector.
// This TU is compiled WITHOUT -fsanitize=thread.
#include "rt_internal.h"

#include <cerrno>
#include <climits>
#include <csignal>
#include <cstdarg>
#include <cstdio>
#include <cstdlib>
#include <cstring>
#include <dlfcn.h>
#include <linux/futex.h>
#include <new>
#include <pthread.h>
#include <sched.h>
#include <sys/mman.h>
#include <sys/syscall.h>
#include <unistd.h>

namespace xmc {

RunCfg g_cfg;

// ------------------------------------------------------------------------------------------------
// small helpers
// ------------------------------------------------------------------------------------------------
static inline long sys_futex(volatile int* addr, int op, int val) {
  return syscall(SYS_futex, addr, op, val, nullptr, nullptr, 0);
}
static void futex_wait_until(volatile int* addr, int want) {
  while (__atomic_load_n(addr, __ATOMIC_ACQUIRE) != want) {
    int cur = __atomic_load_n(addr, __ATOMIC_ACQUIRE);
    if (cur == want) break;
    sys_futex(addr, FUTEX_WAIT, cur);
  }
}
static void futex_set_wake(volatile int* addr, int v) {
  __atomic_store_n(addr, v, __ATOMIC_RELEASE);
  sys_futex(addr, FUTEX_WAKE, INT_MAX);
}

static inline uint64_t mix64(uint64_t h, uint64_t v) {
  h ^= v + 0x9e3779b97f4a7c15ULL + (h << 6) + (h >> 2);
  h *= 0xff51afd7ed558ccdULL;
  h ^= h >> 33;
  return h;
}

struct VC {
  uint32_t c[MAXT];
  void clear() { memset(c, 0, sizeof c); }
  void join(const VC& o) {
    for (int i = 0; i < MAXT; i++)
      if (o.c[i] > c[i]) c[i] = o.c[i];
  }
  bool empty() const {
    for (int i = 0; i < MAXT; i++)
      if (c[i]) return false;
    return true;
  }
};

// ------------------------------------------------------------------------------------------------
// global child state
// ------------------------------------------------------------------------------------------------
enum TState { TS_UNUSED = 0, TS_RUNNABLE, TS_BLOCKED_JOIN, TS_BLOCKED_MUTEX, TS_SPINBLOCKED, TS_FINISHED };

struct Triple {
  void* pc;
  uintptr_t addr;
  uint64_t val;
};
constexpr int MAXSEEN = 48;
constexpr unsigned CS_MAX = 256;
static __thread uintptr_t tl_cs[CS_MAX];
static __thread uintptr_t tl_cs_hash;
static __thread unsigned tl_cs_depth;

struct VThread {
  int id;
  int state;
  pthread_t pt;
  volatile int futex; // 1 = may run
  VC vc;              // happens-before clock
  VC vis;             // visibility clock (>= vc; additionally joined through seq_cst order)
  VC acq_pending;     // views collected by relaxed loads, joined at the next acquire fence
  VC acq_pending_vis;
  VC fence_rel;       // vc at the last release fence
  VC fence_rel_vis;
  uint32_t fence_rel_sc_seen;
  bool has_fence_rel;
  uint32_t sc_seen;        // position in S up to which this thread must observe seq_cst writes (set by seq_cst fences, inherited by acquire)
  uint32_t acq_pending_sc; // collected by relaxed loads, applied at the next acquire fence
  void (*fn)(void*);
  void* arg;
  int parent;
  bool joined;
  int join_target;
  const void* mutex_wait;
  Triple seen[MAXSEEN];
  int nseen;
  uint64_t gw_seen;
  uintptr_t wait_addr[MAXSEEN];
  int nwait;
  int cur_ev;        // index of the pending history event, -1 if none
  bool op_lockfree;
  const char* lf_section; // harness-declared lock-free section outside any recorded operation (xmc::lf_begin)
  long solo_steps;   // steps of the current lock-free op since op start / last switch-in
  int alloc_tag;
  uint64_t plain_since;
  uintptr_t stack_lo, stack_hi;
};

struct Global {
  bool in_child;
  Result* res;
  const Dev* devs;
  int ndev;
  int devpos;
  VThread th[MAXT];
  int nth;
  int current;
  uint64_t steps;
  uint64_t lclock;
  uint64_t gwrites;
  int livelock_rounds;
  VC sc_vis; // view published by seq_cst fences
  uint32_t sc_seq; // length of the seq_cst order of writes
  volatile int done_futex;
  uint64_t trace_hash;
  Test* test;
  const char* const* op_names;
  int n_op_names;
  bool nontrivial;
  int max_solo;
  bool failing;
  int unjoined_others; // threads other than the running one that are not (finished and joined)
};
static Global g;
static __thread VThread* tl_self;
static pthread_key_t g_exit_key;

static Event g_hist[4096];
static int g_nhist;
static long g_cells[NCELLS];

[[noreturn]] static void finish(int verdict, const char* cls, const char* fmt, va_list ap);
[[noreturn]] static void finishf(int verdict, const char* cls, const char* fmt, ...) __attribute__((format(printf, 3, 4)));
static void finishf(int verdict, const char* cls, const char* fmt, ...) {
  va_list ap;
  va_start(ap, fmt);
  finish(verdict, cls, fmt, ap);
}

#define TRACE(...)                                  \
  do {                                              \
    if (g_cfg.trace) { fprintf(stderr, __VA_ARGS__); } \
  } while (0)

// ------------------------------------------------------------------------------------------------
// arena heap with lifetime shadow
// ------------------------------------------------------------------------------------------------
static constexpr uintptr_t ARENA_BASE = 0x200000000000ULL;
static constexpr size_t ARENA_SIZE = 1ULL << 30;
static constexpr uintptr_t SHADOW_BASE = 0x210000000000ULL;
static constexpr size_t SHADOW_SIZE = ARENA_SIZE / 8;
static constexpr uint64_t HDR_MAGIC = 0x584d43484452ULL;
enum { SH_NONE = 0, SH_LIVE = 1, SH_FREED = 2 };

struct BlockHdr {
  uint64_t magic;
  uint64_t size;
  uint32_t state; // SH_LIVE / SH_FREED
  int32_t tag;
  void* alloc_pc;
  void* free_pc;
  int32_t alloc_tid, free_tid;
  uint64_t align;
  BlockHdr* next_free;
};
static_assert(sizeof(BlockHdr) == 64, "hdr");

static bool g_arena_ready;
static uintptr_t g_bump;
static constexpr int MAXBLOCKS = 1 << 20;
static BlockHdr** g_blocks; // side table of all blocks
static int g_nblocks;
static long g_live_blocks, g_live_bytes, g_total_allocs;
static constexpr int NCLASS = 4096;
static BlockHdr* g_freelist[NCLASS];

static inline bool in_arena(uintptr_t a) { return a - ARENA_BASE < ARENA_SIZE; }
static inline uint8_t* shadow_of(uintptr_t a) { return reinterpret_cast<uint8_t*>(SHADOW_BASE + ((a - ARENA_BASE) >> 3)); }

static void arena_init() {
  if (g_arena_ready) return;
  void* p = mmap(reinterpret_cast<void*>(ARENA_BASE), ARENA_SIZE, PROT_READ | PROT_WRITE,
                 MAP_PRIVATE | MAP_ANONYMOUS | MAP_NORESERVE | MAP_FIXED_NOREPLACE, -1, 0);
  void* s = mmap(reinterpret_cast<void*>(SHADOW_BASE), SHADOW_SIZE, PROT_READ | PROT_WRITE,
                 MAP_PRIVATE | MAP_ANONYMOUS | MAP_NORESERVE | MAP_FIXED_NOREPLACE, -1, 0);
  if (p != reinterpret_cast<void*>(ARENA_BASE) || s != reinterpret_cast<void*>(SHADOW_BASE)) {
    fprintf(stderr, "xmc: cannot map arena\n");
    _exit(2);
  }
  g_blocks = static_cast<BlockHdr**>(mmap(nullptr, sizeof(BlockHdr*) * MAXBLOCKS, PROT_READ | PROT_WRITE,
                                          MAP_PRIVATE | MAP_ANONYMOUS | MAP_NORESERVE, -1, 0));
  g_bump = ARENA_BASE + 4096;
  g_arena_ready = true;
}

static void race_reset_range(uintptr_t a, size_t n);
static void race_on_free(uintptr_t a, size_t n, void* pc);
static void loc_reset_range(uintptr_t a, size_t n);

static inline size_t class_of(size_t size, size_t align) {
  size_t c = (size + 15) / 16;
  if (align > 16 || c >= NCLASS) return 0; // class 0: no reuse
  return c;
}

static void* arena_alloc(size_t size, size_t align, void* pc) {
  arena_init();
  if (size == 0) size = 1;
  if (align < 16) align = 16;
  size_t rsize = (size + 7) & ~size_t(7);
  VThread* me = tl_self;
  if (g.in_child && g_cfg.heap_reuse) {
    size_t c = class_of(size, align);
    if (c && g_freelist[c]) {
      BlockHdr* h = g_freelist[c];
      g_freelist[c] = h->next_free;
      h->state = SH_LIVE;
      h->size = size;
      h->alloc_pc = pc;
      h->alloc_tid = me ? me->id : -1;
      h->tag = me ? me->alloc_tag : 0;
      uintptr_t u = reinterpret_cast<uintptr_t>(h) + sizeof(BlockHdr);
      memset(shadow_of(u), SH_LIVE, rsize / 8);
      race_reset_range(u, rsize);
      loc_reset_range(u, rsize);
      g_live_blocks++;
      g_live_bytes += size;
      g_total_allocs++;
      return reinterpret_cast<void*>(u);
    }
  }
  uintptr_t u = g_bump + sizeof(BlockHdr) + 32; // 32-byte red zone in front (shadow NONE)
  u = (u + align - 1) & ~(align - 1);
  // round reusable classes up to the class size so that a recycled block always fits
  size_t reserve = ((size + 15) / 16) * 16;
  if (reserve < rsize) reserve = rsize;
  uintptr_t end = u + reserve + 32;
  if (end > ARENA_BASE + ARENA_SIZE) {
    if (g.in_child) finishf(V_ENGINE, "ENGINE", "arena exhausted");
    fprintf(stderr, "xmc: arena exhausted\n");
    _exit(2);
  }
  g_bump = end;
  BlockHdr* h = reinterpret_cast<BlockHdr*>(u - sizeof(BlockHdr));
  h->magic = HDR_MAGIC;
  h->size = size;
  h->state = SH_LIVE;
  h->tag = me ? me->alloc_tag : 0;
  h->alloc_pc = pc;
  h->free_pc = nullptr;
  h->alloc_tid = me ? me->id : -1;
  h->free_tid = -1;
  h->align = align;
  h->next_free = nullptr;
  memset(shadow_of(u), SH_LIVE, rsize / 8);
  if (g_nblocks < MAXBLOCKS) g_blocks[g_nblocks++] = h;
  g_live_blocks++;
  g_live_bytes += size;
  g_total_allocs++;
  return reinterpret_cast<void*>(u);
}

static void arena_free(void* p, void* pc) {
  uintptr_t u = reinterpret_cast<uintptr_t>(p);
  BlockHdr* h = reinterpret_cast<BlockHdr*>(u - sizeof(BlockHdr));
  if ((u & 15) || h->magic != HDR_MAGIC) {
    if (g.in_child) finishf(V_VIOLATION, "BAD_FREE", "delete of a pointer that is not an allocation start: %p", p);
    return;
  }
  if (h->state != SH_LIVE) {
    if (g.in_child)
      finishf(V_VIOLATION, "DOUBLE_FREE", "block %p (size %lu, allocated by T%d) freed twice (first by T%d)", p,
              (unsigned long)h->size, h->alloc_tid, h->free_tid);
    return;
  }
  size_t rsize = (h->size + 7) & ~size_t(7);
  VThread* me = tl_self;
  if (g.in_child && me) race_on_free(u, rsize, pc);
  h->state = SH_FREED;
  h->free_pc = pc;
  h->free_tid = me ? me->id : -1;
  g_live_blocks--;
  g_live_bytes -= h->size;
  if (g.in_child) {
    memset(shadow_of(u), SH_FREED, rsize / 8);
    if (g_cfg.heap_reuse) {
      size_t c = class_of(h->size, h->align);
      if (c) {
        h->next_free = g_freelist[c];
        g_freelist[c] = h;
      }
    } else {
      memset(p, 0xFB, rsize);
    }
  }
}

static BlockHdr* block_containing(uintptr_t a) {
  // linear scan backwards is too slow in general; binary search over the side table (blocks are bump-ordered)
  int lo = 0, hi = g_nblocks - 1, best = -1;
  while (lo <= hi) {
    int mid = (lo + hi) / 2;
    if (reinterpret_cast<uintptr_t>(g_blocks[mid]) + sizeof(BlockHdr) <= a) {
      best = mid;
      lo = mid + 1;
    } else
      hi = mid - 1;
  }
  if (best < 0) return nullptr;
  BlockHdr* h = g_blocks[best];
  uintptr_t u = reinterpret_cast<uintptr_t>(h) + sizeof(BlockHdr);
  if (a < u + ((h->size + 15) / 16) * 16 + 32) return h;
  return nullptr;
}

static const char* opname_of_thread(VThread* t);

[[noreturn]] static void report_bad_access(uintptr_t a, int size, bool is_write, bool atomic, uint8_t sh, void* pc) {
  BlockHdr* h = block_containing(a);
  VThread* me = tl_self;
  if (h) {
    uintptr_t u = reinterpret_cast<uintptr_t>(h) + sizeof(BlockHdr);
    finishf(V_VIOLATION, sh == SH_FREED ? "UAF" : "OOB",
            "%s%s of %d bytes at %p by T%d in %s: %s block %p+%ld (size %lu, allocated by T%d, freed by T%d) pc=%p",
            atomic ? "atomic " : "", is_write ? "write" : "read", size, (void*)a, me ? me->id : -1, opname_of_thread(me),
            sh == SH_FREED ? "freed" : "outside", (void*)u, (long)(a - u), (unsigned long)h->size, h->alloc_tid,
            h->free_tid, pc);
  }
  finishf(V_VIOLATION, "OOB", "%s of %d bytes at %p by T%d in %s: not inside any allocation pc=%p",
          is_write ? "write" : "read", size, (void*)a, me ? me->id : -1, opname_of_thread(me), pc);
}

static inline void lifetime_check(uintptr_t a, int size, bool is_write, bool atomic, void* pc) {
  if (!in_arena(a)) return;
  uint8_t s0 = *shadow_of(a);
  uint8_t s1 = *shadow_of(a + size - 1);
  if (__builtin_expect(s0 != SH_LIVE || s1 != SH_LIVE, 0)) report_bad_access(a, size, is_write, atomic, s0 != SH_LIVE ? s0 : s1, pc);
}

// ------------------------------------------------------------------------------------------------
// race detector: per 8-byte granule up to 4 access records
// ------------------------------------------------------------------------------------------------
struct Slot {
  uint32_t clk;
  uint8_t tid;
  uint8_t mask;
  uint8_t flags; // 1 = write, 2 = atomic, 0x80 = valid
  uint8_t pad;
};
struct Gran {
  uintptr_t key; // granule address (>0)
  Slot s[4];
  uint8_t rr;
  uint8_t has_loc;
};
static constexpr int GRAN_BITS = 19;
static constexpr int NGRAN = 1 << GRAN_BITS;
static Gran* g_gran; // mmap'd in the worker, COW in the child
static int g_ngran_used;

static inline Gran* gran_lookup(uintptr_t ga, bool create) {
  // locality-preserving index: neighbouring granules share a page of the table (page faults after
  // fork dominate the cost of an execution); regions are separated by folding in high address bits
  uint32_t i = uint32_t((ga >> 3) ^ (ga >> 22) * 0x9E37u) & (NGRAN - 1);
  for (;;) {
    Gran* e = &g_gran[i];
    if (e->key == ga) return e;
    if (e->key == 0) {
      if (!create) return nullptr;
      if (++g_ngran_used > NGRAN * 3 / 4) finishf(V_ENGINE, "ENGINE", "race shadow table full");
      e->key = ga;
      return e;
    }
    i = (i + 1) & (NGRAN - 1);
  }
}

static void race_reset_range(uintptr_t a, size_t n) {
  for (uintptr_t ga = a & ~uintptr_t(7); ga < a + n; ga += 8) {
    Gran* e = gran_lookup(ga, false);
    if (e) {
      memset(e->s, 0, sizeof e->s);
    }
  }
}

[[noreturn]] static void report_race(uintptr_t a, const Slot& old, bool is_write, bool atomic, void* pc, const char* what) {
  VThread* me = tl_self;
  BlockHdr* h = in_arena(a) ? block_containing(a) : nullptr;
  char where[160] = "";
  if (h) {
    uintptr_t u = reinterpret_cast<uintptr_t>(h) + sizeof(BlockHdr);
    snprintf(where, sizeof where, " in block %p+%ld (size %lu, allocated by T%d)", (void*)u, (long)(a - u),
             (unsigned long)h->size, h->alloc_tid);
  }
  finishf(V_VIOLATION, "RACE", "%s: %s%s by T%d in %s at %p%s is not ordered by happens-before with earlier %s%s by T%d (clk %u, last seen clk %u) pc=%p",
          what, atomic ? "atomic " : "", is_write ? "write" : "read", me->id, opname_of_thread(me), (void*)a, where,
          (old.flags & 2) ? "atomic " : "", (old.flags & 1) ? "write" : "read", old.tid, old.clk, me->vc.c[old.tid], pc);
}

static inline void race_access_gran(uintptr_t ga, uint8_t mask, bool is_write, bool atomic, void* pc, Gran** out) {
  VThread* me = tl_self;
  Gran* e = gran_lookup(ga, true);
  if (out) *out = e;
  int repl = -1, empty = -1, hbslot = -1;
  for (int i = 0; i < 4; i++) {
    Slot& s = e->s[i];
    if (!(s.flags & 0x80)) {
      if (empty < 0) empty = i;
      continue;
    }
    bool overlap = (s.mask & mask) != 0;
    if (s.tid == me->id) {
      if (s.mask == mask && (is_write || !(s.flags & 1)) && (!atomic || (s.flags & 2))) repl = i;
      continue;
    }
    bool ordered = s.clk <= me->vc.c[s.tid];
    if (overlap) {
      // atomic vs atomic never conflicts.  An atomic access after a plain *write* is the
      // "initialise, publish, use atomically" pattern (constructor of a std::atomic member): the
      // property (C03) speaks about plain objects, so this pair is not reported; plain payload
      // published without synchronisation is still caught on the payload's own plain accesses.
      bool conflict = ((s.flags & 1) || is_write) && !((s.flags & 2) && atomic) && !(atomic && (s.flags & 3) == 1);
      if (conflict && !ordered) report_race(ga, s, is_write, atomic, pc, "data race");
    }
    if (ordered && (s.mask & ~mask) == 0 && (is_write || !(s.flags & 1)) && (!atomic || (s.flags & 2))) hbslot = i;
  }
  int i = repl >= 0 ? repl : empty >= 0 ? empty : hbslot >= 0 ? hbslot : (e->rr++ & 3);
  Slot& s = e->s[i];
  s.clk = me->vc.c[me->id];
  s.tid = me->id;
  s.mask = mask;
  s.flags = 0x80 | (is_write ? 1 : 0) | (atomic ? 2 : 0);
}

static inline Gran* race_access(uintptr_t a, int size, bool is_write, bool atomic, void* pc) {
  uintptr_t ga = a & ~uintptr_t(7);
  unsigned off = a & 7;
  Gran* first = nullptr;
  if (off + size <= 8) {
    race_access_gran(ga, uint8_t(((1u << size) - 1) << off), is_write, atomic, pc, &first);
  } else {
    // spans several granules
    uintptr_t end = a + size;
    for (uintptr_t x = ga; x < end; x += 8) {
      unsigned lo = x < a ? a - x : 0;
      unsigned hi = end - x < 8 ? end - x : 8;
      race_access_gran(x, uint8_t(((1u << (hi - lo)) - 1) << lo), is_write, atomic, pc, x == ga ? &first : nullptr);
    }
  }
  return first;
}

static void race_on_free(uintptr_t a, size_t n, void* pc) {
  VThread* me = tl_self;
  if (n > 8192) return;
  for (uintptr_t ga = a; ga < a + n; ga += 8) {
    Gran* e = gran_lookup(ga, false);
    if (!e) continue;
    for (int i = 0; i < 4; i++) {
      Slot& s = e->s[i];
      if (!(s.flags & 0x80) || s.tid == me->id) continue;
      if (s.clk > me->vc.c[s.tid]) report_race(ga, s, true, false, pc, "race with deallocation");
    }
  }
}

// ------------------------------------------------------------------------------------------------
// choice points
// ------------------------------------------------------------------------------------------------
static int next_choice(uint8_t kind, int arity, uint8_t cm) {
  if (arity > 255) finishf(V_ENGINE, "ENGINE", "choice arity %d too large", arity);
  Result* r = g.res;
  uint32_t idx = r->npoints;
  // no registered run comes near this length (longest: 12 000 steps); an execution that does is one that does not terminate
  if (idx >= MAXPOINTS) finishf(V_VIOLATION, "HANG", "more than %d choice points in one execution: it does not terminate (T%d in %s)", MAXPOINTS, g.current, opname_of_thread(&g.th[g.current]));
  int alt = 0;
  if (g.devpos < g.ndev && g.devs[g.devpos].idx == idx) {
    const Dev& d = g.devs[g.devpos++];
    if (d.kind != kind || d.arity != arity)
      finishf(V_NONDET, "NONDET", "replay divergence at choice point %u: recorded kind %d arity %d, now kind %d arity %d", idx,
              d.kind, d.arity, kind, arity);
    alt = d.alt;
  }
  Point& p = r->points[idx];
  p.kind = kind;
  p.arity = uint8_t(arity);
  p.cm = cm;
  p.chosen = uint8_t(alt);
  __atomic_store_n(&r->npoints, idx + 1, __ATOMIC_RELEASE);
  TRACE("    {choice #%u kind=%d arity=%d cm=%d -> %d}\n", idx, kind, arity, cm, alt);
  g.trace_hash = mix64(g.trace_hash, (uint64_t(kind) << 16) | (uint64_t(arity) << 8) | alt);
  return alt;
}

// ------------------------------------------------------------------------------------------------
// scheduler
// ------------------------------------------------------------------------------------------------
static const char* opname(int op) {
  static char buf[8][24];
  static int rr;
  if (g.op_names && op >= 0 && op < g.n_op_names) return g.op_names[op];
  char* b = buf[rr++ & 7];
  snprintf(b, 24, "op%d", op);
  return b;
}
static const char* opname_of_thread(VThread* t) {
  if (!t) return "(no thread)";
  if (t->state == TS_FINISHED) return "(thread exit)";
  if (t->cur_ev < 0) return t->lf_section ? t->lf_section : "(outside any operation)";
  return opname(g_hist[t->cur_ev].op);
}

static void all_done() {
  futex_set_wake(&g.done_futex, 1);
}

// transfer control to thread `to`; if the caller is still alive it sleeps until it is scheduled again
static void switch_to(VThread* me, int to) {
  VThread* t = &g.th[to];
  TRACE("    [switch T%d -> T%d]\n", me ? me->id : -1, to);
  g.current = to;
  if (me && me->state != TS_FINISHED) me->futex = 0;
  futex_set_wake(&t->futex, 1);
  if (me && me->state != TS_FINISHED) {
    futex_wait_until(&me->futex, 1);
    // resumed
    if (me->gw_seen != g.gwrites) {
      me->nseen = 0;
      me->gw_seen = g.gwrites;
    }
    me->solo_steps = 0;
  }
}

// called when the calling thread cannot continue (blocked / finished): pick somebody else
static void pick_next_after_block(VThread* me) {
  for (;;) {
    int en[MAXT], n = 0;
    for (int i = 0; i < g.nth; i++)
      if (g.th[i].state == TS_RUNNABLE) en[n++] = i;
    if (n == 0) {
      bool any_spin = false, any_unfinished = false;
      for (int i = 0; i < g.nth; i++) {
        if (g.th[i].state == TS_SPINBLOCKED) any_spin = true;
        if (g.th[i].state != TS_FINISHED) any_unfinished = true;
      }
      if (any_spin) {
        if (++g.livelock_rounds > 40)
          finishf(V_VIOLATION, "LIVELOCK", "only spin-waiting threads remain and none of them can make progress");
        for (int i = 0; i < g.nth; i++)
          if (g.th[i].state == TS_SPINBLOCKED) g.th[i].state = TS_RUNNABLE;
        continue;
      }
      if (any_unfinished) {
        char buf[256];
        int o = 0;
        for (int i = 0; i < g.nth; i++)
          if (g.th[i].state != TS_FINISHED)
            o += snprintf(buf + o, sizeof buf - o, " T%d:%s", i,
                          g.th[i].state == TS_BLOCKED_JOIN ? "join" : g.th[i].state == TS_BLOCKED_MUTEX ? "mutex" : "?");
        finishf(V_VIOLATION, "DEADLOCK", "no enabled thread:%s", buf);
      }
      // everything finished
      all_done();
      return;
    }
    int pick = en[0];
    if (n > 1) pick = en[next_choice(K_SCHED, n, CM_FREE)];
    if (me && pick == me->id) return; // (re-enabled spinner)
    switch_to(me, pick);
    return;
  }
}

static void wake_spinners_on_write(uintptr_t addr) {
  g.gwrites++;
  g.livelock_rounds = 0;
  uintptr_t ga = addr & ~uintptr_t(7);
  for (int i = 0; i < g.nth; i++) {
    VThread& t = g.th[i];
    if (t.state != TS_SPINBLOCKED) continue;
    bool hit = t.nwait == 0;
    for (int k = 0; k < t.nwait && !hit; k++) hit = (t.wait_addr[k] == ga);
    if (hit) t.state = TS_RUNNABLE;
  }
}

static void horizon_check(VThread* me) {
  if (++g.steps > (uint64_t)g_cfg.horizon)
    finishf(V_VIOLATION, "HANG", "step horizon of %ld scheduler steps exceeded (T%d in %s)", g_cfg.horizon, me->id,
            opname_of_thread(me));
  me->plain_since = 0;
  if ((me->cur_ev >= 0 && me->op_lockfree) || me->lf_section) {
    if (++me->solo_steps > g.max_solo) g.max_solo = me->solo_steps;
    if (g_cfg.solo_limit && me->solo_steps > g_cfg.solo_limit)
      finishf(V_VIOLATION, "PROGRESS", "lock-free operation %s of T%d did not finish within %d solo steps", opname_of_thread(me),
              me->id, g_cfg.solo_limit);
  }
}

// scheduling point in front of a visible operation of the running thread
static void sched_point(VThread* me) {
  horizon_check(me);
  me->vc.c[me->id]++;
  me->vis.c[me->id] = me->vc.c[me->id];
  int en[MAXT], n = 0;
  en[n++] = me->id;
  for (int i = 0; i < g.nth; i++)
    if (i != me->id && g.th[i].state == TS_RUNNABLE) en[n++] = i;
  if (n == 1) return;
  int alt = next_choice(K_SCHED, n, CM_PREEMPT);
  if (alt != 0) switch_to(me, en[alt]);
}

// the running thread was found spinning (or called sched_yield)
static void spin_yield(VThread* me) {
  int en[MAXT], n = 0;
  for (int i = 0; i < g.nth; i++)
    if (i != me->id && g.th[i].state == TS_RUNNABLE) en[n++] = i;
  if (n == 0) {
    // nobody else can run: wake spin-blocked threads, if any, otherwise keep going
    bool any = false;
    for (int i = 0; i < g.nth; i++)
      if (g.th[i].state == TS_SPINBLOCKED) {
        g.th[i].state = TS_RUNNABLE;
        any = true;
      }
    if (++g.livelock_rounds > 40) {
      bool blocked_others = false;
      for (int i = 0; i < g.nth; i++)
        if (i != me->id && g.th[i].state != TS_FINISHED) blocked_others = true;
      finishf(V_VIOLATION, "LIVELOCK", "T%d spins in %s and no thread can make progress%s", me->id, opname_of_thread(me),
              blocked_others ? "" : " (all other threads finished)");
    }
    me->nseen = 0;
    if (!any) return;
    for (int i = 0; i < g.nth; i++)
      if (i != me->id && g.th[i].state == TS_RUNNABLE) en[n++] = i;
  }
  int alt = next_choice(K_SCHED, n + 1, CM_LASTCOSTS);
  if (alt == n) { // keep spinning (costs a deviation)
    me->nseen = 0;
    return;
  }
  me->nwait = 0;
  for (int k = 0; k < me->nseen; k++) {
    uintptr_t ga = me->seen[k].addr & ~uintptr_t(7);
    bool dup = false;
    for (int j = 0; j < me->nwait; j++) dup |= me->wait_addr[j] == ga;
    if (!dup) me->wait_addr[me->nwait++] = ga;
  }
  me->nseen = 0;
  me->state = TS_SPINBLOCKED;
  switch_to(me, en[alt]);
}

// record an observation (load / failed CAS); returns true if the same observation was made before
// without any write in between (by anybody)
static bool observe(VThread* me, void* pc, uintptr_t addr, uint64_t val) {
  pc = (void*)((uintptr_t)pc ^ tl_cs_hash);
  for (int k = 0; k < me->nseen; k++)
    if (me->seen[k].pc == pc && me->seen[k].addr == addr && me->seen[k].val == val) return true;
  if (me->nseen < MAXSEEN) me->seen[me->nseen++] = Triple{pc, addr, val};
  return false;
}

static void after_observation(VThread* me, void* pc, uintptr_t addr, uint64_t val) {
  if (!observe(me, pc, addr, val)) return;
  // spinning
  if ((me->cur_ev >= 0 && me->op_lockfree) || me->lf_section) {
    // a lock-free operation must finish solo: do not yield, the solo step counter decides (C16)
    return;
  }
  spin_yield(me);
}

static void own_write(VThread* me, uintptr_t addr) {
  me->nseen = 0;
  wake_spinners_on_write(addr);
  me->gw_seen = g.gwrites;
}

// ------------------------------------------------------------------------------------------------
// atomic locations: modification order, release views, coherence floors
// ------------------------------------------------------------------------------------------------
constexpr int MAXMSG = 6;
constexpr int NFLOOR = 3;
struct Msg {
  uint64_t val;
  uint32_t ts;
  uint64_t sup_step; // global step at which the message was superseded (0 = newest)
  VC rel;            // happens-before view released by this message (release sequences folded in)
  VC relvis;         // visibility view released
  uint16_t seq_mask; // threads heading a release sequence this message belongs to
  bool has_rel;
  uint32_t rel_sc_seen; // releaser's knowledge of the seq_cst order (see Loc::scw_*)
};
struct Floor { // (clk, ts) pairs: an event of thread t at clock clk saw/wrote timestamp ts
  uint32_t clk[NFLOOR];
  uint32_t ts[NFLOOR];
  uint32_t dropped_ts;
  uint8_t n;
};
struct Loc {
  uintptr_t addr;
  uint8_t size;
  int nmsg;
  uint32_t next_ts;
  // the last seq_cst writes to this location: position in the global seq_cst order S and timestamp.  A seq_cst
  // load must not read anything older than the latest of them; any load by a thread whose last seq_cst fence
  // (or acquired knowledge) follows such a write in S must not read anything older than that write.
  uint32_t scw_seq[3], scw_ts[3];
  uint32_t scw_dropped_ts;
  uint8_t scw_n;
  Msg m[MAXMSG];
  Floor fl[MAXT];
};
static constexpr int LOC_BITS = 14;
static constexpr int NLOC = 1 << LOC_BITS;
static Loc* g_loc;
static int g_nloc_used;

static inline uint32_t loc_index(uintptr_t a) { return uint32_t((a >> 2) ^ (a >> 22) * 0x9E37u) & (NLOC - 1); }
static inline Loc* loc_find(uintptr_t a) {
  uint32_t i = loc_index(a);
  for (;;) {
    Loc* e = &g_loc[i];
    if (e->addr == a) return e;
    if (e->addr == 0) return nullptr;
    i = (i + 1) & (NLOC - 1);
  }
}

static inline uint64_t real_load(uintptr_t a, int size) {
  switch (size) {
    case 1: return __atomic_load_n(reinterpret_cast<uint8_t*>(a), __ATOMIC_SEQ_CST);
    case 2: return __atomic_load_n(reinterpret_cast<uint16_t*>(a), __ATOMIC_SEQ_CST);
    case 4: return __atomic_load_n(reinterpret_cast<uint32_t*>(a), __ATOMIC_SEQ_CST);
    default: return __atomic_load_n(reinterpret_cast<uint64_t*>(a), __ATOMIC_SEQ_CST);
  }
}
static inline void real_store(uintptr_t a, int size, uint64_t v) {
  switch (size) {
    case 1: __atomic_store_n(reinterpret_cast<uint8_t*>(a), uint8_t(v), __ATOMIC_SEQ_CST); break;
    case 2: __atomic_store_n(reinterpret_cast<uint16_t*>(a), uint16_t(v), __ATOMIC_SEQ_CST); break;
    case 4: __atomic_store_n(reinterpret_cast<uint32_t*>(a), uint32_t(v), __ATOMIC_SEQ_CST); break;
    default: __atomic_store_n(reinterpret_cast<uint64_t*>(a), v, __ATOMIC_SEQ_CST); break;
  }
}

static Loc* loc_get(uintptr_t a, int size, Gran* gr) {
  uint32_t i = loc_index(a);
  Loc* tomb = nullptr;
  for (;;) {
    Loc* e = &g_loc[i];
    if (e->addr == a) return e;
    if (e->addr == 1 && !tomb) tomb = e;
    if (e->addr == 0) {
      if (tomb) e = tomb;
      else if (++g_nloc_used > NLOC * 3 / 4) finishf(V_ENGINE, "ENGINE", "atomic location table full");
      memset(e, 0, sizeof *e);
      e->addr = a;
      e->size = uint8_t(size);
      e->nmsg = 1;
      e->next_ts = 1;
      e->m[0].val = real_load(a, size); // value established by initialisation (plain write / memset)
      e->m[0].ts = 0;
      if (gr) gr->has_loc = 1;
      return e;
    }
    i = (i + 1) & (NLOC - 1);
  }
}

static void loc_reset_at(uintptr_t a) {
  Loc* e = loc_find(a);
  if (e) e->addr = 1; // tombstone
}
static void loc_reset_range(uintptr_t a, size_t n) {
  for (uintptr_t x = a & ~uintptr_t(7); x < a + n; x += 8) {
    Gran* gr = gran_lookup(x, false);
    if (gr && gr->has_loc) {
      for (int k = 0; k < 8; k++) loc_reset_at(x + k);
      gr->has_loc = 0;
    }
  }
}

static inline bool mo_acquire(int mo) { return mo == 1 || mo == 2 || mo == 4 || mo == 5; }
static inline bool mo_release(int mo) { return mo == 3 || mo == 4 || mo == 5; }
static inline bool mo_sc(int mo) { return mo == 5; }

static inline void floor_add(Loc* l, int tid, uint32_t clk, uint32_t ts) {
  Floor& f = l->fl[tid];
  if (f.n && f.ts[f.n - 1] >= ts) return; // nothing new
  if (f.n && f.clk[f.n - 1] == clk) {
    f.ts[f.n - 1] = ts;
    return;
  }
  if (f.n == NFLOOR) {
    f.dropped_ts = f.ts[0];
    for (int i = 1; i < NFLOOR; i++) {
      f.clk[i - 1] = f.clk[i];
      f.ts[i - 1] = f.ts[i];
    }
    f.n--;
  }
  f.clk[f.n] = clk;
  f.ts[f.n] = ts;
  f.n++;
}
// smallest timestamp thread `me` may still read from l
static inline uint32_t floor_of(Loc* l, VThread* me) {
  uint32_t fl = 0;
  for (int t = 0; t < g.nth; t++) {
    const Floor& f = l->fl[t];
    if (!f.n && !f.dropped_ts) continue;
    uint32_t seen = me->vis.c[t];
    uint32_t v = 0;
    if (f.n && seen >= f.clk[0]) {
      for (int i = f.n - 1; i >= 0; i--)
        if (f.clk[i] <= seen) {
          v = f.ts[i];
          break;
        }
    } else if (seen > 0) {
      v = f.dropped_ts; // conservative: never lower than the floor of any dropped entry <= seen
    }
    if (v > fl) fl = v;
  }
  return fl;
}

// seq_cst modelling (wmm mode).  seq_cst fences are totally ordered visibility barriers: a fence publishes the
// thread's whole view and acquires what earlier fences published.  A seq_cst access does NOT publish the thread's
// earlier non-seq_cst stores (a release store followed by a seq_cst load may be reordered - store buffering);
// it only takes part in S: a seq_cst write is recorded per location, a seq_cst load reads nothing older than the
// latest seq_cst write to its location, and it observes what earlier fences published.
static inline void sc_pre(VThread* me) { me->vis.join(g.sc_vis); }
static inline void sc_fence_post(VThread* me) { g.sc_vis.join(me->vis); }
static inline void sc_record_write(Loc* l, uint32_t ts) {
  if (l->scw_n == 3) {
    l->scw_dropped_ts = l->scw_ts[0];
    l->scw_seq[0] = l->scw_seq[1];
    l->scw_ts[0] = l->scw_ts[1];
    l->scw_seq[1] = l->scw_seq[2];
    l->scw_ts[1] = l->scw_ts[2];
    l->scw_n = 2;
  }
  l->scw_seq[l->scw_n] = ++g.sc_seq;
  l->scw_ts[l->scw_n] = ts;
  l->scw_n++;
}
// smallest timestamp a load may read because of the seq_cst order: `seen` = position in S the loader must respect
static inline uint32_t sc_floor(const Loc* l, uint32_t seen) {
  for (int i = l->scw_n - 1; i >= 0; i--)
    if (l->scw_seq[i] <= seen) return l->scw_ts[i];
  return seen ? l->scw_dropped_ts : 0; // conservative for dropped entries
}

// choose the message a load by `me` reads from
static Msg* pick_message(VThread* me, Loc* l, bool for_cas, uint64_t expected, bool sc_load) {
  Msg* newest = &l->m[l->nmsg - 1];
  if (g_cfg.mode == 0 || l->nmsg == 1) return newest;
  uint32_t fl = floor_of(l, me);
  uint32_t scf = sc_floor(l, sc_load ? g.sc_seq : me->sc_seen);
  if (scf > fl) fl = scf;
  TRACE("    {pick T%d nmsg=%d floor=%u scf=%u vis=[%u %u %u %u]}\n", me->id, l->nmsg, fl, scf, me->vis.c[0], me->vis.c[1], me->vis.c[2], me->vis.c[3]);
  Msg* cand[MAXMSG];
  int n = 0;
  cand[n++] = newest;
  for (int i = l->nmsg - 2; i >= 0; i--) {
    Msg* m = &l->m[i];
    if (m->ts < fl) break;
    if (g_cfg.W && g.steps - m->sup_step > (uint64_t)g_cfg.W) break;
    if (for_cas && m->val == expected) continue; // a CAS that would succeed must read the newest value
    cand[n++] = m;
  }
  if (n == 1) return newest;
  return cand[next_choice(K_RF, n, CM_PREEMPT)];
}

static inline void apply_acquire(VThread* me, const Msg* m, int mo) {
  if (!m->has_rel) return;
  if (mo_acquire(mo)) {
    me->vc.join(m->rel);
    me->vis.join(m->relvis);
    me->vis.join(me->vc);
    if (m->rel_sc_seen > me->sc_seen) me->sc_seen = m->rel_sc_seen;
  } else {
    me->acq_pending.join(m->rel);
    me->acq_pending_vis.join(m->relvis);
    if (m->rel_sc_seen > me->acq_pending_sc) me->acq_pending_sc = m->rel_sc_seen;
  }
}

static Msg* append_message(VThread* me, Loc* l, uint64_t val) {
  Msg* old = &l->m[l->nmsg - 1];
  if (g_cfg.mode == 0) {
    old->val = val;
    old->ts = l->next_ts++;
    return old; // caller fixes up rel
  }
  old->sup_step = g.steps;
  if (l->nmsg == MAXMSG) {
    memmove(&l->m[0], &l->m[1], sizeof(Msg) * (MAXMSG - 1));
    l->nmsg--;
  }
  Msg* m = &l->m[l->nmsg++];
  *m = l->m[l->nmsg - 2];
  m->val = val;
  m->ts = l->next_ts++;
  m->sup_step = 0;
  return m;
}

enum AK { A_LOAD, A_STORE, A_XCHG, A_ADD, A_SUB, A_AND, A_OR, A_XOR, A_NAND, A_CAS };

static inline uint64_t trunc_to(uint64_t v, int size) { return size >= 8 ? v : v & ((1ULL << (size * 8)) - 1); }

static uint64_t raw_atomic(AK k, uintptr_t a, int size, uint64_t v, uint64_t* expected, bool* ok) {
  // outside a model-checked execution: just do it (single-threaded contexts: static init, driver)
  uint64_t old = real_load(a, size);
  switch (k) {
    case A_LOAD: return old;
    case A_STORE: real_store(a, size, v); return 0;
    case A_XCHG: real_store(a, size, v); return old;
    case A_ADD: real_store(a, size, old + v); return old;
    case A_SUB: real_store(a, size, old - v); return old;
    case A_AND: real_store(a, size, old & v); return old;
    case A_OR: real_store(a, size, old | v); return old;
    case A_XOR: real_store(a, size, old ^ v); return old;
    case A_NAND: real_store(a, size, ~(old & v)); return old;
    case A_CAS:
      if (old == trunc_to(*expected, size)) {
        real_store(a, size, v);
        *ok = true;
      } else {
        *expected = old;
        *ok = false;
      }
      return old;
  }
  return 0;
}

static const char* ak_name[] = {"load", "store", "xchg", "add", "sub", "and", "or", "xor", "nand", "cas"};

static __thread bool tl_weak_cas; // set by the compare_exchange_weak entry points for the duration of the call
static uint64_t atomic_core(AK k, uintptr_t a, int size, uint64_t v, uint64_t* expected, int mo, int fmo, bool* ok, void* pc) {
  VThread* me = tl_self;
  if (!g.in_child || !me || g.failing) return raw_atomic(k, a, size, v, expected, ok);
  const bool may_fail_spuriously = k == A_CAS && tl_weak_cas && g_cfg.spur > 0;
  if (g.unjoined_others == 0) {
    // the running thread is alone (every other thread is finished and joined): interleaving, views and
    // happens-before are irrelevant; later threads are hb-after everything and start from the memory value
    horizon_check(me);
    me->vc.c[me->id]++;
    me->vis.c[me->id] = me->vc.c[me->id];
    lifetime_check(a, size, k != A_LOAD, true, pc);
    if (k != A_LOAD) {
      Gran* gr0 = gran_lookup(a & ~uintptr_t(7), false);
      if (gr0 && gr0->has_loc) loc_reset_at(a);
    }
    uint64_t before = real_load(a, size);
    if (may_fail_spuriously && before == trunc_to(*expected, size) && next_choice(K_SPUR, 2, CM_PREEMPT) == 1) {
      *ok = false; // spurious failure: nothing is written, `expected` keeps its (equal) value
      g.trace_hash = mix64(g.trace_hash, (a << 8) ^ 0x5b5b);
      TRACE("  %6lu T%d cas%d   %p SPURIOUS FAILURE (solo)\n", (unsigned long)g.steps, me->id, size * 8, (void*)a);
      me->nseen = 0;
      return before;
    }
    uint64_t r = raw_atomic(k, a, size, v, expected, ok);
    uint64_t after = real_load(a, size);
    g.trace_hash = mix64(g.trace_hash, (a << 8) ^ r ^ after);
    TRACE("  %6lu T%d %s%d %p %#lx -> %#lx (solo)\n", (unsigned long)g.steps, me->id, ak_name[k], size * 8, (void*)a, (unsigned long)before,
          (unsigned long)after);
    if (k == A_LOAD || after == before) after_observation(me, pc, a, before);
    else
      own_write(me, a);
    return r;
  }
  sched_point(me);
  lifetime_check(a, size, k != A_LOAD, true, pc);
  Gran* gr = race_access(a, size, k != A_LOAD, true, pc);
  Loc* l = loc_get(a, size, gr);
  v = trunc_to(v, size);
  uint32_t myclk = me->vc.c[me->id];
  bool sc = mo_sc(mo);
  if (sc) sc_pre(me);
  uint64_t ret = 0;
  if (k == A_LOAD) {
    Msg* m = pick_message(me, l, false, 0, sc);
    ret = m->val;
    apply_acquire(me, m, mo);
    floor_add(l, me->id, myclk, m->ts);
    g.trace_hash = mix64(g.trace_hash, (uint64_t(me->id) << 56) ^ (a << 8) ^ ret);
    TRACE("  %6lu T%d load%d  %p -> %#lx mo=%d%s rel=%d[%u %u %u %u]\n", (unsigned long)g.steps, me->id, size * 8, (void*)a, (unsigned long)ret, mo,
          m == &l->m[l->nmsg - 1] ? "" : " (STALE)", (int)m->has_rel, m->rel.c[0], m->rel.c[1], m->rel.c[2], m->rel.c[3]);
    after_observation(me, pc, a, ret);
    return ret;
  }
  if (k == A_STORE) {
    Msg* prev = &l->m[l->nmsg - 1];
    uint16_t prev_mask = prev->seq_mask;
    bool prev_has = prev->has_rel;
    VC prev_rel, prev_relvis;
    uint32_t prev_sc_seen = prev->rel_sc_seen;
    if (prev_has) {
      prev_rel = prev->rel;
      prev_relvis = prev->relvis;
    }
    Msg* m = append_message(me, l, v);
    if (mo_release(mo)) {
      m->rel = me->vc;
      m->relvis = me->vis;
      m->rel_sc_seen = me->sc_seen;
      m->has_rel = true;
      m->seq_mask = uint16_t(1u << me->id);
    } else {
      bool cont = prev_has && (prev_mask & (1u << me->id));
      if (cont) { // same-thread continuation of a release sequence (C++11/17 wording)
        m->rel = prev_rel;
        m->relvis = prev_relvis;
        m->has_rel = true;
        m->seq_mask = prev_mask;
        m->rel_sc_seen = prev_sc_seen;
        if (me->has_fence_rel) {
          m->rel.join(me->fence_rel);
          m->relvis.join(me->fence_rel_vis);
          if (me->fence_rel_sc_seen > m->rel_sc_seen) m->rel_sc_seen = me->fence_rel_sc_seen;
        }
      } else if (me->has_fence_rel) {
        m->rel = me->fence_rel;
        m->relvis = me->fence_rel_vis;
        m->rel_sc_seen = me->fence_rel_sc_seen;
        m->has_rel = true;
        m->seq_mask = uint16_t(1u << me->id);
      } else {
        m->has_rel = false;
        m->seq_mask = 0;
      }
    }
    real_store(a, size, v);
    floor_add(l, me->id, myclk, m->ts);
    if (sc) sc_record_write(l, m->ts);
    g.trace_hash = mix64(g.trace_hash, (uint64_t(me->id) << 56) ^ (a << 8) ^ v ^ 0x5555);
    TRACE("  %6lu T%d store%d %p <- %#lx mo=%d\n", (unsigned long)g.steps, me->id, size * 8, (void*)a, (unsigned long)v, mo);
    own_write(me, a);
    // a new epoch starts AFTER a (potentially releasing) write: what this thread does next is not covered by the view
    // the message carries.  (Without this tick a plain access between a release and the thread's next visible operation
    // had the epoch of the release and passed for ordered before it - a miss of the race detector, seed C13c.)
    me->vc.c[me->id]++;
    me->vis.c[me->id] = me->vc.c[me->id];
    return 0;
  }
  // read-modify-write (CAS included)
  Msg* rd;
  if (k == A_CAS) {
    uint64_t exp = trunc_to(*expected, size);
    rd = pick_message(me, l, true, exp, sc);
    if (rd->val != exp) {
      // failed CAS = load with the failure order
      *expected = rd->val;
      *ok = false;
      apply_acquire(me, rd, fmo);
      floor_add(l, me->id, myclk, rd->ts);
      g.trace_hash = mix64(g.trace_hash, (uint64_t(me->id) << 56) ^ (a << 8) ^ rd->val ^ 0xcccc);
      TRACE("  %6lu T%d cas%d   %p expected %#lx found %#lx FAIL mo=%d/%d\n", (unsigned long)g.steps, me->id, size * 8, (void*)a,
            (unsigned long)exp, (unsigned long)rd->val, mo, fmo);
      after_observation(me, pc, a, rd->val);
      return rd->val;
    }
    if (may_fail_spuriously && next_choice(K_SPUR, 2, CM_PREEMPT) == 1) {
      // compare_exchange_weak may fail although the comparison succeeds: a load with the failure order
      *ok = false;
      apply_acquire(me, rd, fmo);
      floor_add(l, me->id, myclk, rd->ts);
      g.trace_hash = mix64(g.trace_hash, (uint64_t(me->id) << 56) ^ (a << 8) ^ rd->val ^ 0x5b5b);
      TRACE("  %6lu T%d cas%d   %p expected %#lx SPURIOUS FAILURE mo=%d/%d\n", (unsigned long)g.steps, me->id, size * 8, (void*)a, (unsigned long)exp, mo, fmo);
      me->nseen = 0; // not an observation of an unchanged state: the retry will go through
      return rd->val;
    }
    *ok = true;
  } else {
    rd = &l->m[l->nmsg - 1];
  }
  uint64_t old = rd->val, nv = 0;
  switch (k) {
    case A_XCHG: nv = v; break;
    case A_ADD: nv = old + v; break;
    case A_SUB: nv = old - v; break;
    case A_AND: nv = old & v; break;
    case A_OR: nv = old | v; break;
    case A_XOR: nv = old ^ v; break;
    case A_NAND: nv = ~(old & v); break;
    case A_CAS: nv = v; break;
    default: break;
  }
  nv = trunc_to(nv, size);
  apply_acquire(me, rd, mo);
  // the new message continues every release sequence the read message belongs to
  bool has = rd->has_rel;
  VC rel, relvis;
  uint32_t rel_sc = has ? rd->rel_sc_seen : 0;
  uint16_t mask = rd->seq_mask;
  if (has) {
    rel = rd->rel;
    relvis = rd->relvis;
  } else {
    rel.clear();
    relvis.clear();
  }
  if (mo_release(mo)) {
    rel.join(me->vc);
    relvis.join(me->vis);
    if (me->sc_seen > rel_sc) rel_sc = me->sc_seen;
    has = true;
    mask |= uint16_t(1u << me->id);
  } else if (me->has_fence_rel) {
    rel.join(me->fence_rel);
    relvis.join(me->fence_rel_vis);
    if (me->fence_rel_sc_seen > rel_sc) rel_sc = me->fence_rel_sc_seen;
    has = true;
    mask |= uint16_t(1u << me->id);
  }
  Msg* m = append_message(me, l, nv);
  m->rel = rel;
  m->relvis = relvis;
  m->rel_sc_seen = rel_sc;
  m->has_rel = has;
  m->seq_mask = mask;
  real_store(a, size, nv);
  floor_add(l, me->id, myclk, m->ts);
  if (sc) sc_record_write(l, m->ts);
  g.trace_hash = mix64(g.trace_hash, (uint64_t(me->id) << 56) ^ (a << 8) ^ nv ^ 0xaaaa);
  TRACE("  %6lu T%d %s%d %p %#lx -> %#lx mo=%d\n", (unsigned long)g.steps, me->id, ak_name[k], size * 8, (void*)a,
        (unsigned long)old, (unsigned long)nv, mo);
  if (nv == old) after_observation(me, pc, a, old); // value-preserving RMW (test-and-set spinning): an observation
  else own_write(me, a);
  me->vc.c[me->id]++; // new epoch after the write (see the store case)
  me->vis.c[me->id] = me->vc.c[me->id];
  return old;
}

static void fence_core(int mo) {
  VThread* me = tl_self;
  if (!g.in_child || !me || g.failing) return;
  if (g_cfg.mode == 1) sched_point(me); // in sc mode a fence is not a visible operation
  else {
    me->vc.c[me->id]++;
    me->vis.c[me->id] = me->vc.c[me->id];
  }
  if (mo_acquire(mo)) {
    me->vc.join(me->acq_pending);
    me->vis.join(me->acq_pending_vis);
    me->vis.join(me->vc);
    if (me->acq_pending_sc > me->sc_seen) me->sc_seen = me->acq_pending_sc;
  }
  if (mo_sc(mo)) {
    sc_pre(me);
    sc_fence_post(me);
    me->sc_seen = g.sc_seq; // every seq_cst write so far precedes this fence in S
  }
  if (mo_release(mo)) {
    me->fence_rel = me->vc;
    me->fence_rel_vis = me->vis;
    me->fence_rel_sc_seen = me->sc_seen;
    me->has_fence_rel = true;
    me->vc.c[me->id]++; // new epoch after the release fence: later accesses are not part of what a later relaxed store publishes
    me->vis.c[me->id] = me->vc.c[me->id];
  }
  TRACE("  %6lu T%d fence mo=%d\n", (unsigned long)g.steps, me->id, mo);
}

// ------------------------------------------------------------------------------------------------
// plain accesses
// ------------------------------------------------------------------------------------------------
static inline void plain_access(uintptr_t a, int size, bool is_write, void* pc) {
  VThread* me = tl_self;
  if (!me || !g.in_child || g.failing) return;
  if (++me->plain_since > (uint64_t)g_cfg.plain_horizon)
    finishf(V_VIOLATION, "HANG", "T%d executed %ld plain accesses without reaching a synchronisation operation (in %s)", me->id,
            g_cfg.plain_horizon, opname_of_thread(me));
  if (a - me->stack_lo < me->stack_hi - me->stack_lo) return; // own stack: thread-private by assumption
  lifetime_check(a, size, is_write, false, pc);
  if (g.unjoined_others == 0) { // every other thread is finished and joined: nothing can be concurrent
    if (is_write) {
      Gran* gr0 = gran_lookup(a & ~uintptr_t(7), false);
      if (gr0 && gr0->has_loc)
        for (int k = 0; k < size; k++) loc_reset_at(a + k);
    }
    return;
  }
  Gran* gr = race_access(a, size, is_write, false, pc);
  if (is_write && gr && gr->has_loc) {
    for (int k = 0; k < size; k++) loc_reset_at(a + k);
  }
}
} // namespace xmc

using namespace xmc;
#define RA __builtin_return_address(0)

extern "C" {
void __tsan_init() {}
void __tsan_read1(void* a) { plain_access((uintptr_t)a, 1, false, RA); }
void __tsan_read2(void* a) { plain_access((uintptr_t)a, 2, false, RA); }
void __tsan_read4(void* a) { plain_access((uintptr_t)a, 4, false, RA); }
void __tsan_read8(void* a) { plain_access((uintptr_t)a, 8, false, RA); }
void __tsan_read16(void* a) { plain_access((uintptr_t)a, 16, false, RA); }
void __tsan_write1(void* a) { plain_access((uintptr_t)a, 1, true, RA); }
void __tsan_write2(void* a) { plain_access((uintptr_t)a, 2, true, RA); }
void __tsan_write4(void* a) { plain_access((uintptr_t)a, 4, true, RA); }
void __tsan_write8(void* a) { plain_access((uintptr_t)a, 8, true, RA); }
void __tsan_write16(void* a) { plain_access((uintptr_t)a, 16, true, RA); }
void __tsan_unaligned_read2(void* a) { plain_access((uintptr_t)a, 2, false, RA); }
void __tsan_unaligned_read4(void* a) { plain_access((uintptr_t)a, 4, false, RA); }
void __tsan_unaligned_read8(void* a) { plain_access((uintptr_t)a, 8, false, RA); }
void __tsan_unaligned_read16(void* a) { plain_access((uintptr_t)a, 16, false, RA); }
void __tsan_unaligned_write2(void* a) { plain_access((uintptr_t)a, 2, true, RA); }
void __tsan_unaligned_write4(void* a) { plain_access((uintptr_t)a, 4, true, RA); }
void __tsan_unaligned_write8(void* a) { plain_access((uintptr_t)a, 8, true, RA); }
void __tsan_unaligned_write16(void* a) { plain_access((uintptr_t)a, 16, true, RA); }
void __tsan_read1_pc(void* a, void* pc) { plain_access((uintptr_t)a, 1, false, pc); }
void __tsan_read2_pc(void* a, void* pc) { plain_access((uintptr_t)a, 2, false, pc); }
void __tsan_read4_pc(void* a, void* pc) { plain_access((uintptr_t)a, 4, false, pc); }
void __tsan_read8_pc(void* a, void* pc) { plain_access((uintptr_t)a, 8, false, pc); }
void __tsan_write1_pc(void* a, void* pc) { plain_access((uintptr_t)a, 1, true, pc); }
void __tsan_write2_pc(void* a, void* pc) { plain_access((uintptr_t)a, 2, true, pc); }
void __tsan_write4_pc(void* a, void* pc) { plain_access((uintptr_t)a, 4, true, pc); }
void __tsan_write8_pc(void* a, void* pc) { plain_access((uintptr_t)a, 8, true, pc); }
void __tsan_vptr_update(void** a, void* nv) {
  if (*a != nv) plain_access((uintptr_t)a, 8, true, RA);
}
void __tsan_vptr_read(void** a) { plain_access((uintptr_t)a, 8, false, RA); }
// shadow call stack (hash only): lets the spin detector tell two calls of an outlined accessor from
// different call sites apart from a loop that repeats the same call
void __tsan_func_entry(void* ra) {
  if (tl_cs_depth < CS_MAX) tl_cs[tl_cs_depth] = tl_cs_hash;
  tl_cs_depth++;
  tl_cs_hash = tl_cs_hash * 0x9E3779B97F4A7C15ull + (uintptr_t)ra;
}
void __tsan_func_exit() {
  if (tl_cs_depth == 0) return;
  tl_cs_depth--;
  if (tl_cs_depth < CS_MAX) tl_cs_hash = tl_cs[tl_cs_depth];
}
void __tsan_ignore_thread_begin() {}
void __tsan_ignore_thread_end() {}
void __tsan_read_range(void* a, unsigned long n) {
  for (unsigned long i = 0; i < n; i += 8) plain_access((uintptr_t)a + i, n - i >= 8 ? 8 : int(n - i), false, RA);
}
void __tsan_write_range(void* a, unsigned long n) {
  for (unsigned long i = 0; i < n; i += 8) plain_access((uintptr_t)a + i, n - i >= 8 ? 8 : int(n - i), true, RA);
}
void __tsan_read_range_pc(void* a, unsigned long n, void*) { __tsan_read_range(a, n); }
void __tsan_write_range_pc(void* a, unsigned long n, void*) { __tsan_write_range(a, n); }

#define XMC_ATOMICS(T, N, SZ)                                                                                                    \
  T __tsan_atomic##N##_load(const volatile T* a, int mo) {                                                                       \
    bool ok;                                                                                                                     \
    return (T)atomic_core(A_LOAD, (uintptr_t)a, SZ, 0, nullptr, mo, mo, &ok, RA);                                                \
  }                                                                                                                              \
  void __tsan_atomic##N##_store(volatile T* a, T v, int mo) {                                                                    \
    bool ok;                                                                                                                     \
    atomic_core(A_STORE, (uintptr_t)a, SZ, (uint64_t)v, nullptr, mo, mo, &ok, RA);                                               \
  }                                                                                                                              \
  T __tsan_atomic##N##_exchange(volatile T* a, T v, int mo) {                                                                    \
    bool ok;                                                                                                                     \
    return (T)atomic_core(A_XCHG, (uintptr_t)a, SZ, (uint64_t)v, nullptr, mo, mo, &ok, RA);                                      \
  }                                                                                                                              \
  T __tsan_atomic##N##_fetch_add(volatile T* a, T v, int mo) {                                                                   \
    bool ok;                                                                                                                     \
    return (T)atomic_core(A_ADD, (uintptr_t)a, SZ, (uint64_t)v, nullptr, mo, mo, &ok, RA);                                       \
  }                                                                                                                              \
  T __tsan_atomic##N##_fetch_sub(volatile T* a, T v, int mo) {                                                                   \
    bool ok;                                                                                                                     \
    return (T)atomic_core(A_SUB, (uintptr_t)a, SZ, (uint64_t)v, nullptr, mo, mo, &ok, RA);                                       \
  }                                                                                                                              \
  T __tsan_atomic##N##_fetch_and(volatile T* a, T v, int mo) {                                                                   \
    bool ok;                                                                                                                     \
    return (T)atomic_core(A_AND, (uintptr_t)a, SZ, (uint64_t)v, nullptr, mo, mo, &ok, RA);                                       \
  }                                                                                                                              \
  T __tsan_atomic##N##_fetch_or(volatile T* a, T v, int mo) {                                                                    \
    bool ok;                                                                                                                     \
    return (T)atomic_core(A_OR, (uintptr_t)a, SZ, (uint64_t)v, nullptr, mo, mo, &ok, RA);                                        \
  }                                                                                                                              \
  T __tsan_atomic##N##_fetch_xor(volatile T* a, T v, int mo) {                                                                   \
    bool ok;                                                                                                                     \
    return (T)atomic_core(A_XOR, (uintptr_t)a, SZ, (uint64_t)v, nullptr, mo, mo, &ok, RA);                                       \
  }                                                                                                                              \
  T __tsan_atomic##N##_fetch_nand(volatile T* a, T v, int mo) {                                                                  \
    bool ok;                                                                                                                     \
    return (T)atomic_core(A_NAND, (uintptr_t)a, SZ, (uint64_t)v, nullptr, mo, mo, &ok, RA);                                      \
  }                                                                                                                              \
  int __tsan_atomic##N##_compare_exchange_strong(volatile T* a, T* c, T v, int mo, int fmo) {                                    \
    bool ok = false;                                                                                                             \
    uint64_t e = (uint64_t)*c;                                                                                                   \
    atomic_core(A_CAS, (uintptr_t)a, SZ, (uint64_t)v, &e, mo, fmo, &ok, RA);                                                     \
    if (!ok) *c = (T)e;                                                                                                          \
    return ok;                                                                                                                   \
  }                                                                                                                              \
  int __tsan_atomic##N##_compare_exchange_weak(volatile T* a, T* c, T v, int mo, int fmo) {                                      \
    bool ok = false;                                                                                                             \
    uint64_t e = (uint64_t)*c;                                                                                                   \
    tl_weak_cas = true;                                                                                                          \
    atomic_core(A_CAS, (uintptr_t)a, SZ, (uint64_t)v, &e, mo, fmo, &ok, RA);                                                     \
    tl_weak_cas = false;                                                                                                         \
    if (!ok) *c = (T)e;                                                                                                          \
    return ok;                                                                                                                   \
  }                                                                                                                              \
  T __tsan_atomic##N##_compare_exchange_val(volatile T* a, T c, T v, int mo, int fmo) {                                          \
    bool ok = false;                                                                                                             \
    uint64_t e = (uint64_t)c;                                                                                                    \
    atomic_core(A_CAS, (uintptr_t)a, SZ, (uint64_t)v, &e, mo, fmo, &ok, RA);                                                     \
    return ok ? c : (T)e;                                                                                                        \
  }
XMC_ATOMICS(unsigned char, 8, 1)
XMC_ATOMICS(unsigned short, 16, 2)
XMC_ATOMICS(unsigned int, 32, 4)
XMC_ATOMICS(unsigned long, 64, 8)

void __tsan_atomic_thread_fence(int mo) { fence_core(mo); }
void __tsan_atomic_signal_fence(int) {}
} // extern "C"

// ------------------------------------------------------------------------------------------------
// operator new / delete
// ------------------------------------------------------------------------------------------------
void* operator new(size_t n) { return arena_alloc(n, 16, RA); }
void* operator new[](size_t n) { return arena_alloc(n, 16, RA); }
void* operator new(size_t n, const std::nothrow_t&) noexcept { return arena_alloc(n, 16, RA); }
void* operator new[](size_t n, const std::nothrow_t&) noexcept { return arena_alloc(n, 16, RA); }
void* operator new(size_t n, std::align_val_t al) { return arena_alloc(n, (size_t)al, RA); }
void* operator new[](size_t n, std::align_val_t al) { return arena_alloc(n, (size_t)al, RA); }
void* operator new(size_t n, std::align_val_t al, const std::nothrow_t&) noexcept { return arena_alloc(n, (size_t)al, RA); }
void* operator new[](size_t n, std::align_val_t al, const std::nothrow_t&) noexcept { return arena_alloc(n, (size_t)al, RA); }
static inline void xdel(void* p, void* pc) {
  if (!p) return;
  if (in_arena((uintptr_t)p)) arena_free(p, pc);
  else free(p);
}
void operator delete(void* p) noexcept { xdel(p, RA); }
void operator delete[](void* p) noexcept { xdel(p, RA); }
void operator delete(void* p, size_t) noexcept { xdel(p, RA); }
void operator delete[](void* p, size_t) noexcept { xdel(p, RA); }
void operator delete(void* p, const std::nothrow_t&) noexcept { xdel(p, RA); }
void operator delete[](void* p, const std::nothrow_t&) noexcept { xdel(p, RA); }
void operator delete(void* p, std::align_val_t) noexcept { xdel(p, RA); }
void operator delete[](void* p, std::align_val_t) noexcept { xdel(p, RA); }
void operator delete(void* p, size_t, std::align_val_t) noexcept { xdel(p, RA); }
void operator delete[](void* p, size_t, std::align_val_t) noexcept { xdel(p, RA); }
void operator delete(void* p, std::align_val_t, const std::nothrow_t&) noexcept { xdel(p, RA); }
void operator delete[](void* p, std::align_val_t, const std::nothrow_t&) noexcept { xdel(p, RA); }

// ------------------------------------------------------------------------------------------------
// libc interposition: pthread_mutex_*, sched_yield
// ------------------------------------------------------------------------------------------------
namespace xmc {
struct MutexRec {
  const void* addr;
  int owner; // -1 free
  VC vc, vis;
  uint32_t sc_seen;
};
static MutexRec g_mutex[64];
static int g_nmutex;
static MutexRec* mutex_get(const void* m) {
  for (int i = 0; i < g_nmutex; i++)
    if (g_mutex[i].addr == m) return &g_mutex[i];
  if (g_nmutex == 64) finishf(V_ENGINE, "ENGINE", "too many mutexes");
  MutexRec* r = &g_mutex[g_nmutex++];
  r->addr = m;
  r->owner = -1;
  r->vc.clear();
  r->vis.clear();
  return r;
}
static int model_mutex_lock(const void* m, bool try_only) {
  VThread* me = tl_self;
  sched_point(me);
  MutexRec* r = mutex_get(m);
  while (r->owner >= 0) {
    if (try_only) return EBUSY;
    if (r->owner == me->id) finishf(V_VIOLATION, "DEADLOCK", "T%d locks a mutex it already holds", me->id);
    me->state = TS_BLOCKED_MUTEX;
    me->mutex_wait = m;
    pick_next_after_block(me);
  }
  r->owner = me->id;
  me->vc.join(r->vc);
  me->vis.join(r->vis);
  me->vis.join(me->vc);
  if (r->sc_seen > me->sc_seen) me->sc_seen = r->sc_seen;
  TRACE("  %6lu T%d mutex_lock %p\n", (unsigned long)g.steps, me->id, m);
  return 0;
}
static int model_mutex_unlock(const void* m) {
  VThread* me = tl_self;
  sched_point(me);
  MutexRec* r = mutex_get(m);
  r->owner = -1;
  r->vc = me->vc;
  r->vis = me->vis;
  r->sc_seen = me->sc_seen;
  me->vc.c[me->id]++; // new epoch after the unlock: what follows is not ordered before the next lock of another thread
  me->vis.c[me->id] = me->vc.c[me->id];
  for (int i = 0; i < g.nth; i++)
    if (g.th[i].state == TS_BLOCKED_MUTEX && g.th[i].mutex_wait == m) g.th[i].state = TS_RUNNABLE;
  g.gwrites++;
  TRACE("  %6lu T%d mutex_unlock %p\n", (unsigned long)g.steps, me->id, m);
  return 0;
}
} // namespace xmc

extern "C" {
typedef int (*mutex_fn)(pthread_mutex_t*);
int pthread_mutex_lock(pthread_mutex_t* m) {
  if (g.in_child && tl_self && !g.failing) return model_mutex_lock(m, false);
  static mutex_fn real = (mutex_fn)dlsym(RTLD_NEXT, "pthread_mutex_lock");
  return real(m);
}
int pthread_mutex_trylock(pthread_mutex_t* m) {
  if (g.in_child && tl_self && !g.failing) return model_mutex_lock(m, true);
  static mutex_fn real = (mutex_fn)dlsym(RTLD_NEXT, "pthread_mutex_trylock");
  return real(m);
}
int pthread_mutex_unlock(pthread_mutex_t* m) {
  if (g.in_child && tl_self && !g.failing) return model_mutex_unlock(m);
  static mutex_fn real = (mutex_fn)dlsym(RTLD_NEXT, "pthread_mutex_unlock");
  return real(m);
}
int sched_yield(void) {
  VThread* me = tl_self;
  if (g.in_child && me && !g.failing) {
    horizon_check(me);
    spin_yield(me);
    return 0;
  }
  return (int)syscall(SYS_sched_yield);
}
uint64_t xenium_verif_random() { return (uint64_t)xmc::choose_rand(xmc::rand_domain()); }
}

// ------------------------------------------------------------------------------------------------
// harness API
// ------------------------------------------------------------------------------------------------
namespace xmc {

static Test* g_tests;
Test::Test(const char* n, void (*f)(), const char* d) : name(n), fn(f), desc(d), next(g_tests) { g_tests = this; }
Test* test_list() { return g_tests; }

int choose(int n) {
  if (n <= 1) return 0;
  return next_choice(K_DATA, n, CM_FREE);
}
int choose_rand(int n) {
  if (n <= 1) return 0;
  return next_choice(K_RAND, n, CM_PREEMPT);
}
int self() { return tl_self ? tl_self->id : -1; }
static int g_rand_domain = 1;
void set_rand_domain(int n) { g_rand_domain = n < 1 ? 1 : n; }
int rand_domain() { return g_rand_domain; }
uint64_t steps() { return g.steps; }
bool heap_reuse_mode() { return g_cfg.heap_reuse != 0; }
void point() {
  VThread* me = tl_self;
  if (!g.in_child || !me || g.failing || g.unjoined_others == 0) return;
  sched_point(me);
}
bool hb_mode() { return g_cfg.mode == 1; }
long opt(const char* key, long dflt) {
  for (int i = 0; i < g_cfg.nopt; i++)
    if (!strcmp(g_cfg.optk[i], key)) return g_cfg.optv[i];
  return dflt;
}
long cell_get(int i) { return g_cells[i]; }
void cell_set(int i, long v) { g_cells[i] = v; }
long cell_add(int i, long d) { return g_cells[i] += d; }
void mark_nontrivial() { g.nontrivial = true; }
void set_op_names(const char* const* names, int n) {
  g.op_names = names;
  g.n_op_names = n;
}

HeapStats heap_stats() { return HeapStats{g_live_blocks, g_live_bytes, g_total_allocs}; }
int heap_tag(int tag) {
  VThread* me = tl_self;
  if (!me) return 0;
  int o = me->alloc_tag;
  me->alloc_tag = tag;
  return o;
}
long heap_live_with_tag(int tag) {
  long n = 0;
  for (int i = 0; i < g_nblocks; i++)
    if (g_blocks[i]->state == SH_LIVE && g_blocks[i]->tag == tag) n++;
  return n;
}
void heap_note_live(int tag) {
  for (int i = 0; i < g_nblocks; i++)
    if (g_blocks[i]->state == SH_LIVE && g_blocks[i]->tag == tag)
      note("live block %p size %lu allocated by T%d pc=%p", (void*)((uintptr_t)g_blocks[i] + sizeof(BlockHdr)), (unsigned long)g_blocks[i]->size,
           g_blocks[i]->alloc_tid, g_blocks[i]->alloc_pc);
}
bool heap_is_live(const void* p) {
  uintptr_t a = (uintptr_t)p;
  return in_arena(a) && *shadow_of(a) == SH_LIVE;
}

void note(const char* fmt, ...) {
  Result* r = g.res;
  if (!r) return;
  size_t o = strlen(r->notes);
  if (o + 2 >= TEXTSZ) return;
  va_list ap;
  va_start(ap, fmt);
  vsnprintf(r->notes + o, TEXTSZ - o - 2, fmt, ap);
  va_end(ap);
  strcat(r->notes, "\n");
}

int op_begin(int op, long a0, long a1, bool lockfree) {
  VThread* me = tl_self;
  if (g_nhist >= 4096) finishf(V_ENGINE, "ENGINE", "history too long");
  Event& e = g_hist[g_nhist];
  memset(&e, 0, sizeof e);
  e.tid = me->id;
  e.op = op;
  e.a0 = a0;
  e.a1 = a1;
  e.inv = ++g.lclock;
  memcpy(e.inv_vc, me->vc.c, sizeof e.inv_vc);
  me->cur_ev = g_nhist;
  me->op_lockfree = lockfree;
  me->solo_steps = 0;
  me->nseen = 0;
  TRACE("  ------ T%d begins %s(%ld,%ld)\n", me->id, opname(op), a0, a1);
  return g_nhist++;
}
void op_end(long r0, long r1) {
  VThread* me = tl_self;
  if (me->cur_ev < 0) finishf(V_ENGINE, "ENGINE", "op_end without op_begin");
  Event& e = g_hist[me->cur_ev];
  e.r0 = r0;
  e.r1 = r1;
  e.res = ++g.lclock;
  // make response clocks strictly later than anything inside the operation
  memcpy(e.res_vc, me->vc.c, sizeof e.res_vc);
  e.done = true;
  TRACE("  ------ T%d ends   %s -> (%ld,%ld)\n", me->id, opname(e.op), r0, r1);
  me->cur_ev = -1;
  me->nseen = 0;
  g.livelock_rounds = 0; // a completed operation is progress: LIVELOCK is about a thread stuck inside one operation / wait
}
// The harness has made progress that the spin detector cannot see (an iteration of a loop of its own that only reads:
// `for (k...) contains(k)` on an empty container repeats the same loads from the same call site without any write in
// between and was taken for a busy-wait loop: false LIVELOCK in the hash map sweep).  A wait inside one library call
// is still found: nothing resets the detector there.
void lf_begin(const char* what) {
  VThread* me = tl_self;
  if (!g.in_child || !me) return;
  me->lf_section = what;
  me->solo_steps = 0;
  me->nseen = 0;
}
void lf_end() {
  VThread* me = tl_self;
  if (!g.in_child || !me) return;
  me->lf_section = nullptr;
  me->nseen = 0;
  g.livelock_rounds = 0;
}
void progress() {
  VThread* me = tl_self;
  if (!g.in_child || !me) return;
  me->nseen = 0;
  g.livelock_rounds = 0;
}
int history_size() { return g_nhist; }
void history_reset() {
  for (int i = 0; i < g.nth; i++)
    if (g.th[i].cur_ev >= 0) finishf(V_ENGINE, "ENGINE", "history_reset inside an operation");
  g_nhist = 0;
}
const Event& history_at(int i) { return g_hist[i]; }
bool precedes(const Event& a, const Event& b) {
  if (!a.done) return false;
  if (a.tid == b.tid || g_cfg.mode == 0) return a.res < b.inv;
  // wmm: a's response happens-before b's invocation
  return a.res_vc[a.tid] <= b.inv_vc[a.tid];
}

static void compose_history() {
  Result* r = g.res;
  size_t o = 0;
  uint64_t h = 1469598103934665603ULL;
  bool overlap = false;
  for (int i = 0; i < g_nhist && o + 96 < TEXTSZ; i++) {
    const Event& e = g_hist[i];
    o += snprintf(r->hist + o, TEXTSZ - o, "T%d:%s(%ld,%ld)", e.tid, opname(e.op), e.a0, e.a1);
    if (e.done) o += snprintf(r->hist + o, TEXTSZ - o, "=(%ld,%ld)@[%lu,%lu] ", e.r0, e.r1, (unsigned long)e.inv, (unsigned long)e.res);
    else
      o += snprintf(r->hist + o, TEXTSZ - o, "=pending@[%lu,-] ", (unsigned long)e.inv);
    h = mix64(h, (uint64_t)e.tid * 1000003 + e.op);
    h = mix64(h, (uint64_t)e.a0 * 31 + e.a1);
    h = mix64(h, e.done ? (uint64_t)e.r0 * 31 + e.r1 : 0xdeadULL);
    // the order relation: which earlier events precede this one
    for (int j = 0; j < i; j++) {
      bool p = precedes(g_hist[j], e), q = precedes(e, g_hist[j]);
      h = mix64(h, (p ? 1 : 0) + (q ? 2 : 0));
      if (!p && !q && g_hist[j].tid != e.tid) overlap = true;
    }
  }
  r->hist_hash = h;
  r->nops = g_nhist;
  if (overlap) g.nontrivial = true;
}

static void finish(int verdict, const char* cls, const char* fmt, va_list ap) {
  // may be called from any thread; the process ends here
  if (g.failing) _exit(3);
  g.failing = true;
  Result* r = g.res;
  if (!r) {
    vfprintf(stderr, fmt, ap);
    fputc('\n', stderr);
    _exit(2);
  }
  r->verdict = verdict;
  snprintf(r->cls, sizeof r->cls, "%s", cls);
  vsnprintf(r->msg, sizeof r->msg, fmt, ap);
  compose_history();
  r->steps = g.steps;
  r->trace_hash = g.trace_hash;
  r->nontrivial = g.nontrivial;
  r->max_solo = g.max_solo;
  __atomic_store_n(&r->finished, 1, __ATOMIC_RELEASE);
  if (g_cfg.trace) fprintf(stderr, "== verdict %d %s: %s\n", verdict, r->cls, r->msg);
  _exit(0);
}

void fail(const char* cls, const char* fmt, ...) {
  va_list ap;
  va_start(ap, fmt);
  // "ENGINE" is reserved for limits of the machinery itself (harness or runtime): an error, never a verdict
  finish(strcmp(cls, "ENGINE") == 0 ? V_ENGINE : V_VIOLATION, cls, fmt, ap);
}
void prune() { finishf(V_PRUNED, "PRUNED", "pruned by harness"); }

// ------------------------------------------------------------------------------------------------
// virtual threads
// ------------------------------------------------------------------------------------------------
static void thread_finished(void*) {
  // pthread key destructor: runs after all C++ thread_local destructors of this thread
  VThread* me = tl_self;
  if (!me || g.failing) return;
  TRACE("  ------ T%d finished\n", me->id);
  me->vc.c[me->id]++;
  me->state = TS_FINISHED;
  g.gwrites++;
  for (int i = 0; i < g.nth; i++)
    if (g.th[i].state == TS_BLOCKED_JOIN && g.th[i].join_target == me->id) g.th[i].state = TS_RUNNABLE;
  tl_self = nullptr;
  pick_next_after_block(me);
}

static void* thread_main(void* p) {
  VThread* me = static_cast<VThread*>(p);
  tl_self = me;
  pthread_setspecific(g_exit_key, me);
  {
    pthread_attr_t at;
    void* lo = nullptr;
    size_t sz = 0;
    if (pthread_getattr_np(pthread_self(), &at) == 0) {
      pthread_attr_getstack(&at, &lo, &sz);
      pthread_attr_destroy(&at);
      me->stack_lo = (uintptr_t)lo;
      me->stack_hi = (uintptr_t)lo + sz;
    }
  }
  futex_wait_until(&me->futex, 1);
  me->fn(me->arg);
  if (me->cur_ev >= 0) {
    // thread body returned inside an operation: treat as harness bug
    finishf(V_ENGINE, "ENGINE", "thread body returned inside an operation");
  }
  return nullptr; // thread_local destructors run next, then thread_finished
}

static VThread* new_vthread(void (*fn)(void*), void* arg, int parent) {
  if (g.nth >= MAXT) finishf(V_ENGINE, "ENGINE", "too many virtual threads");
  VThread* t = &g.th[g.nth];
  memset(t, 0, sizeof *t);
  t->id = g.nth;
  t->state = TS_RUNNABLE;
  t->fn = fn;
  t->arg = arg;
  t->parent = parent;
  t->cur_ev = -1;
  g.nth++;
  return t;
}

static constexpr size_t STACK_SZ = 256 * 1024;
static char* g_stacks;
static void start_pthread(VThread* t) {
  pthread_attr_t at;
  pthread_attr_init(&at);
  pthread_attr_setstack(&at, g_stacks + size_t(t->id) * STACK_SZ, STACK_SZ); // preallocated: no mmap/munmap per thread
  if (pthread_create(&t->pt, &at, thread_main, t) != 0) finishf(V_ENGINE, "ENGINE", "pthread_create failed");
  pthread_attr_destroy(&at);
}

int spawn_raw(void (*fn)(void*), void* arg) {
  VThread* me = tl_self;
  sched_point(me);
  VThread* t = new_vthread(fn, arg, me->id);
  t->vc = me->vc;
  t->vis = me->vis;
  t->sc_seen = me->sc_seen;
  t->vc.c[t->id] = 1;
  t->vis.c[t->id] = 1;
  me->vc.c[me->id]++;
  me->vis.c[me->id] = me->vc.c[me->id];
  g.unjoined_others++;
  start_pthread(t);
  TRACE("  ------ T%d spawns T%d\n", me->id, t->id);
  return t->id;
}

void join(int tid) {
  VThread* me = tl_self;
  VThread* t = &g.th[tid];
  sched_point(me);
  while (t->state != TS_FINISHED) {
    me->state = TS_BLOCKED_JOIN;
    me->join_target = tid;
    pick_next_after_block(me);
  }
  if (!t->joined) {
    t->joined = true;
    g.unjoined_others--;
    pthread_join(t->pt, nullptr);
  }
  me->vc.join(t->vc);
  me->vis.join(t->vis);
  me->vis.join(me->vc);
  if (t->sc_seen > me->sc_seen) me->sc_seen = t->sc_seen;
  TRACE("  ------ T%d joined T%d\n", me->id, tid);
}

void join_all() {
  VThread* me = tl_self;
  for (int i = 0; i < g.nth; i++)
    if (g.th[i].parent == me->id && i != me->id && !g.th[i].joined) join(i);
}

// ------------------------------------------------------------------------------------------------
// child main
// ------------------------------------------------------------------------------------------------
static void crash_handler(int sig, siginfo_t* si, void*) {
  if (g.failing) _exit(3);
  VThread* me = tl_self;
  if (sig == SIGALRM) // backstop only (step and plain-access horizons decide hangs deterministically): a machinery limit, not a verdict
    finishf(V_ENGINE, "WALLCLOCK", "wall-clock limit of %d s exceeded (T%d in %s)", g_cfg.wall_limit_s, g.current,
            opname_of_thread(&g.th[g.current]));
  finishf(V_VIOLATION, "CRASH", "signal %d (%s) at address %p in T%d during %s", sig, strsignal(sig), si ? si->si_addr : nullptr,
          me ? me->id : -1, opname_of_thread(me));
}

static void t0_tramp(void*) {
  try {
    g.test->fn();
  } catch (const std::exception& e) {
    fail("EXCEPTION", "uncaught exception in T0: %s", e.what());
  } catch (...) {
    fail("EXCEPTION", "uncaught exception in T0");
  }
}

void rt_global_init() {
  arena_init();
  if (!g_gran) {
    g_gran = static_cast<Gran*>(mmap(nullptr, sizeof(Gran) * NGRAN, PROT_READ | PROT_WRITE, MAP_PRIVATE | MAP_ANONYMOUS | MAP_NORESERVE, -1, 0));
    g_loc = static_cast<Loc*>(mmap(nullptr, sizeof(Loc) * NLOC, PROT_READ | PROT_WRITE, MAP_PRIVATE | MAP_ANONYMOUS | MAP_NORESERVE, -1, 0));
    pthread_key_create(&g_exit_key, thread_finished);
    g_stacks = static_cast<char*>(mmap(nullptr, STACK_SZ * MAXT, PROT_READ | PROT_WRITE, MAP_PRIVATE | MAP_ANONYMOUS | MAP_NORESERVE, -1, 0));
  }
}

void run_child(Test* t, const Dev* devs, int ndev, Result* res) {
  if (getenv("XMC_NULLCHILD")) { res->verdict = V_OK; res->finished = 1; _exit(0); }
  rt_global_init();
  g.res = res;
  g.devs = devs;
  g.ndev = ndev;
  g.devpos = 0;
  g.test = t;
  res->started = 1;
  res->npoints = 0;
  res->finished = 0;
  res->notes[0] = 0;
  res->hist[0] = 0;
  struct sigaction sa;
  memset(&sa, 0, sizeof sa);
  sa.sa_sigaction = crash_handler;
  sa.sa_flags = SA_SIGINFO | SA_NODEFER;
  static char altstack[65536];
  stack_t ss;
  ss.ss_sp = altstack;
  ss.ss_size = sizeof altstack;
  ss.ss_flags = 0;
  sigaltstack(&ss, nullptr);
  for (int s : {SIGSEGV, SIGBUS, SIGFPE, SIGILL, SIGABRT, SIGALRM}) sigaction(s, &sa, nullptr);
  alarm(g_cfg.wall_limit_s);
  g.in_child = true;
  VThread* t0 = new_vthread(&t0_tramp, nullptr, -1);
  t0->vc.c[0] = 1;
  t0->vis.c[0] = 1;
  g.current = 0;
  start_pthread(t0);
  futex_set_wake(&t0->futex, 1);
  futex_wait_until(&g.done_futex, 1);
  // all virtual threads have finished
  g.failing = true; // no more modelling
  for (int i = 0; i < g.nth; i++)
    if (!g.th[i].joined) pthread_join(g.th[i].pt, nullptr);
  res->verdict = V_OK;
  res->cls[0] = 0;
  res->msg[0] = 0;
  compose_history();
  res->steps = g.steps;
  res->trace_hash = g.trace_hash;
  res->nontrivial = g.nontrivial;
  res->max_solo = g.max_solo;
  __atomic_store_n(&res->finished, 1, __ATOMIC_RELEASE);
  _exit(0);
}

} // namespace xmc
