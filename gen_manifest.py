#!/usr/bin/env python3
"""Regenerates MANIFEST.json from plan.py (claimed checks) and the fixed properties list."""
import json, subprocess, sys
sys.path.insert(0, '.')
from plan import PLAN, TITLES, LEVEL_TEXT, NOT_APPLICABLE
props = [json.loads(l) for l in open('properties.jsonl')]
hook_commits = [c for c in subprocess.check_output(['git', '-C', '/repo', 'log', '--format=%h %s'], text=True).splitlines() if 'verif hook' in c]
m = {
    "version": 1,
    "setup_cmd": "./check build",
    "hooks": {
        "guard": "XENIUM_VERIF",
        "enable": "harness TUs are compiled with -DXENIUM_VERIF -fsanitize=thread (instrumentation only) and linked against xmc/rt.cpp instead of the TSan runtime; see Makefile",
        "baseline_off_cmd": "(test -f /repo/_build/build.ninja || cmake -G Ninja -S /repo -B /repo/_build) && cmake --build /repo/_build --target gtest && ctest --test-dir /repo/_build -j8 --timeout 900",
        "source_commits": [c.split()[0] for c in hook_commits],
        "add_only": True,
    },
    "engines": [{"name": "xmc", "path": "xmc/", "serves_properties": sorted(PLAN.keys()),
                 "kind_free_text": "stateless bounded-exhaustive model checker for the real C++ code: own runtime behind TSan instrumentation, serialising scheduler with recorded choice points (iterative preemption bounding), C++11 happens-before / view-based weak-memory layer, quarantining heap with lifetime shadow, vector-clock race detector, Wing-Gong linearizability oracles"}],
    "checks": [],
    "not_applicable": [],
    "notes": "All checks: ./check <id> --tier quick|thorough ; replay: ./check replay <file>. Known findings: known_findings.json. Design: DESIGN.md.",
}
for p in props:
    pid = p['id']
    if pid in PLAN:
        m["checks"].append({
            "property_id": pid,
            "quick_cmd": "./check %s --tier quick" % pid,
            "thorough_cmd": "./check %s --tier thorough" % pid,
            "evidence_file": "/verif/evidence/%s.json" % pid,
            "replay_cmd_template": "./check replay {path}",
            "engine": "xmc",
            "level_claimed": {"category": "model_checking", "text": LEVEL_TEXT[pid], "design_ref": "DESIGN.md section 4 (%s)" % pid},
            "level_note": PLAN[pid].get("level_note", "trusted base: the xmc runtime (scheduler, memory-model layer, heap shadow, race detector, oracles) and g++'s TSan instrumentation pass; bounds as recorded in the evidence"),
            "technique": PLAN[pid].get("technique", "stateless model checking of the implementation: exhaustive preemption-bounded schedule enumeration under a controlled scheduler"),
        })
    else:
        m["not_applicable"].append({"property_id": pid, "reason": NOT_APPLICABLE.get(pid, "no check registered yet")})
json.dump(m, open('MANIFEST.json', 'w'), indent=1)
print("checks:", [c['property_id'] for c in m['checks']], "n/a:", [c['property_id'] for c in m['not_applicable']])
