#!/bin/bash
# usage: tools_seed_probe.sh <tree-with-the-change> <bin> <test> <deadline> [explorer args...]
# one explorer run against a changed tree in a scratch copy of /verif (kept in /dev/shm/vp_<name> for further probes; remove it afterwards)
wt=$1; b=$2; t=$3; dl=$4; shift 4
sc=/dev/shm/vp_$(basename $wt)
mkdir -p $sc
rsync -a --exclude .git --exclude build --exclude replays --exclude seeded --exclude evidence_thorough --exclude evidence /verif/ $sc/
mkdir -p $sc/replays $sc/build
( cd $sc && make -s -j16 REPO=$wt build/$b.prod 2>&1 | tail -5 && timeout $((dl+60)) ./build/$b.prod --test $t --workers 16 --deadline $dl --max-vio 1 --json $sc/probe.json "$@" 2>&1 | grep -v "^WARNING" | cut -c1-400 | tail -6
  python3 -c "
import json;j=json.load(open('$sc/probe.json'));print({k:j.get(k) for k in ('executions','exhaustive','violations','completed_c','distinct_nontrivial')})" )
