#!/usr/bin/env python3
"""Binary-safe single replacement in a /repo file, preserving CRLF/LF line endings.
usage: tools_repo_edit.py FILE OLD_TEXT_FILE NEW_TEXT_FILE"""
import sys
p, oldf, newf = sys.argv[1:4]
data = open(p, 'rb').read()
crlf = b'\r\n' in data
old = open(oldf, 'rb').read().replace(b'\r\n', b'\n')
new = open(newf, 'rb').read().replace(b'\r\n', b'\n')
if crlf:
    old = old.replace(b'\n', b'\r\n')
    new = new.replace(b'\n', b'\r\n')
assert data.count(old) == 1, "old text must occur exactly once (found %d)" % data.count(old)
open(p, 'wb').write(data.replace(old, new))
print("edited", p, "crlf" if crlf else "lf")
