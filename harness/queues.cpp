// C04: michael_scott_queue, ramalhete_queue, nikolaev_queue are linearizable FIFO queues.
// Programs: T threads x m operations over {push, try_pop}, all enumerated (DATA choices), after an optional
// prefill by T0; afterwards T0 drains the queue (recorded operations) and destroys it.
#include "harness/common.h"

#include <xenium/michael_scott_queue.hpp>
#include <xenium/nikolaev_queue.hpp>
#include <xenium/ramalhete_queue.hpp>

using namespace xmc;

namespace {
const char* const kOps[] = {"push", "try_pop"};

struct FifoSpec {
  uint8_t q[14];
  int n = 0;
  bool apply(const Event& e) {
    if (e.op == 0) {
      if (n >= 14) return false;
      q[n++] = uint8_t(e.a0);
      return true;
    }
    if (e.r0 == 0) return n == 0;
    if (n == 0 || q[0] != e.r1) return false;
    for (int i = 1; i < n; i++) q[i - 1] = q[i];
    n--;
    return true;
  }
  uint64_t hash() const {
    uint64_t h = n;
    for (int i = 0; i < n; i++) h = (h << 4) | q[i];
    return h;
  }
};

// adapters -----------------------------------------------------------------------------------------
template <class Q, class = void>
struct has_pop : std::false_type {};
template <class Q>
struct has_pop<Q, std::void_t<decltype(std::declval<Q&>().pop())>> : std::true_type {};

template <class Q>
struct ValAdapter { // queues holding int by value
  static void push(Q& q, int v) { q.push(v); }
  static bool try_pop(Q& q, int& v) { return q.try_pop(v); }
  static bool pop_opt(Q& q, int& v) { // the std::optional returning entry point (michael_scott_queue has none)
    if constexpr (has_pop<Q>::value) {
      auto r = q.pop();
      if (!r) return false;
      v = *r;
      return true;
    } else
      return q.try_pop(v);
  }
};
template <class Q>
struct PtrAdapter { // queues holding raw pointers: the value is encoded in the (never dereferenced) pointer
  static void push(Q& q, int v) { q.push(reinterpret_cast<int*>(uintptr_t(v) << 4)); }
  static bool try_pop(Q& q, int& v) {
    int* p = nullptr;
    if (!q.try_pop(p)) return false;
    v = int(reinterpret_cast<uintptr_t>(p) >> 4);
    return true;
  }
  static bool pop_opt(Q& q, int& v) {
    auto r = q.pop();
    if (!r) return false;
    v = int(reinterpret_cast<uintptr_t>(*r) >> 4);
    return true;
  }
};

template <class Q, class A>
void fifo_test() {
  set_op_names(kOps, 2);
  const int T = (int)opt("T", 2), m = (int)opt("m", 2);
  const int prefill = (int)opt("prefill", -1) >= 0 ? (int)opt("prefill", 0) : choose(2);
  hx::Program p = hx::choose_program(T, m, 2, true);
  // relevance filter: at least one push and one pop, or two pushes by different threads
  int pushes = 0, pops = 0;
  for (int t = 0; t < T; t++)
    for (int i = 0; i < m; i++) (p.op[t][i] == 0 ? pushes : pops)++;
  if (pops == 0 && opt("allow_push_only", 0) == 0) prune();
  // popping entry point: --opt api=0 try_pop(value_type&), 1 pop() -> std::optional, 2 (default) alternating with the
  // position of the operation in its thread's program (the same for every thread: symmetry pruning stays sound)
  const int api = (int)opt("api", 2);
  Q* q = new Q();
  int next = 1;
  for (int i = 0; i < prefill; i++) {
    op_begin(0, next);
    A::push(*q, next);
    op_end();
    next++;
  }
  for (int t = 0; t < T; t++) {
    int base = next + t * m;
    spawn([q, p, t, m, base, api] {
      for (int i = 0; i < m; i++) {
        if (p.op[t][i] == 0) {
          op_begin(0, base + i);
          A::push(*q, base + i);
          op_end();
        } else {
          int v = 0;
          op_begin(1);
          bool ok = (api == 1 || (api == 2 && (i & 1) == 0)) ? A::pop_opt(*q, v) : A::try_pop(*q, v);
          op_end(ok, ok ? v : 0);
        }
      }
    });
  }
  join_all();
  for (int i = 0;; i++) { // final drain
    int v = 0;
    op_begin(1);
    bool ok = (api == 1 || (api == 2 && (i & 1))) ? A::pop_opt(*q, v) : A::try_pop(*q, v);
    op_end(ok, ok ? v : 0);
    if (!ok) break;
  }
  delete q;
  lin::require_linearizable(FifoSpec{}, "a sequential FIFO queue");
}

namespace xp = xenium::policy;
template <class R>
using MS = xenium::michael_scott_queue<int, xp::reclaimer<R>>;
template <class R, unsigned E, unsigned P>
using RAM = xenium::ramalhete_queue<int*, xp::reclaimer<R>, xp::entries_per_node<E>, xp::pop_retries<P>>;
template <class R, unsigned E, unsigned P>
using NIK = xenium::nikolaev_queue<int, xp::reclaimer<R>, xp::entries_per_node<E>, xp::pop_retries<P>>;

#define REG_ALL(prefix, QT, AD)                                                                      \
  XMC_TEST_FN(prefix "_hp", (&fifo_test<QT(rec::HPs<3>), AD<QT(rec::HPs<3>)>>), "static HP");        \
  XMC_TEST_FN(prefix "_hpd", (&fifo_test<QT(rec::HPd<1>), AD<QT(rec::HPd<1>)>>), "dynamic HP");      \
  XMC_TEST_FN(prefix "_he", (&fifo_test<QT(rec::HEs<3>), AD<QT(rec::HEs<3>)>>), "static HE");        \
  XMC_TEST_FN(prefix "_hed", (&fifo_test<QT(rec::HEd<1>), AD<QT(rec::HEd<1>)>>), "dynamic HE");      \
  XMC_TEST_FN(prefix "_qsbr", (&fifo_test<QT(rec::QSBR), AD<QT(rec::QSBR)>>), "QSBR");               \
  XMC_TEST_FN(prefix "_ebr", (&fifo_test<QT(rec::EBR), AD<QT(rec::EBR)>>), "epoch_based");           \
  XMC_TEST_FN(prefix "_nebr", (&fifo_test<QT(rec::NEBR), AD<QT(rec::NEBR)>>), "new_epoch_based");    \
  XMC_TEST_FN(prefix "_debra", (&fifo_test<QT(rec::DEBRA), AD<QT(rec::DEBRA)>>), "debra");           \
  XMC_TEST_FN(prefix "_gebr_lazy", (&fifo_test<QT(rec::GEBR_LAZY), AD<QT(rec::GEBR_LAZY)>>), "generic EBR lazy/n_threads<2>/abandon always"); \
  XMC_TEST_FN(prefix "_gebr_thr", (&fifo_test<QT(rec::GEBR_THR), AD<QT(rec::GEBR_THR)>>), "generic EBR abandon threshold 1"); \
  XMC_TEST_FN(prefix "_stamp", (&fifo_test<QT(rec::STAMP), AD<QT(rec::STAMP)>>), "stamp_it");        \
  XMC_TEST_FN(prefix "_lfrc", (&fifo_test<QT(rec::LFRC), AD<QT(rec::LFRC)>>), "lock_free_ref_count"); \
  XMC_TEST_FN(prefix "_lfrc_tl", (&fifo_test<QT(rec::LFRC_TL), AD<QT(rec::LFRC_TL)>>), "LFRC with thread-local free list")

#define QT_MS(R) MS<R>
REG_ALL("ms", QT_MS, ValAdapter);
#define QT_RAM11(R) RAM<R, 1, 1>
REG_ALL("ram_e1p1", QT_RAM11, PtrAdapter);
#define QT_RAM20(R) RAM<R, 2, 0>
REG_ALL("ram_e2p0", QT_RAM20, PtrAdapter);
#define QT_NIK11(R) NIK<R, 1, 1>
REG_ALL("nik_e1p1", QT_NIK11, ValAdapter);
#define QT_NIK20(R) NIK<R, 2, 0>
REG_ALL("nik_e2p0", QT_NIK20, ValAdapter);
} // namespace
