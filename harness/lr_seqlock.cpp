// C13 left_right and C14 seqlock.
#include "harness/common.h"

#include <xenium/left_right.hpp>
#include <xenium/seqlock.hpp>

#include <cstring>

using namespace xmc;

namespace {
// =================================================================================================
// atomic register / counter spec shared by both
// =================================================================================================
const char* const kOps[] = {"store", "update", "load"};
struct RegisterSpec {
  long v = 0;
  bool apply(const Event& e) {
    switch (e.op) {
      case 0: v = e.a0; return true;          // store(tag)
      case 1: v = v + e.a0; return true;      // update: adds a0
      default: return e.r0 == v;              // load returns the current value
    }
  }
  uint64_t hash() const { return (uint64_t)v; }
};

// =================================================================================================
// C13 left_right
// =================================================================================================
struct Pair {
  int a = 0;
  int b = 0;
};
void left_right_test() {
  set_op_names(kOps, 3);
  const int W = (int)opt("writers", 1), U = (int)opt("updates", 2), Rn = (int)opt("readers", 1), L = (int)opt("loads", 2);
  // --opt ctor: 0 default constructed, 1 left_right(source), 2 left_right(left, right) - both instances start at `init`
  const int ctor = (int)opt("ctor", 0), init = ctor ? 3 : 0;
  Pair ini;
  ini.a = ini.b = init;
  auto* lr = ctor == 0 ? new xenium::left_right<Pair>() : ctor == 1 ? new xenium::left_right<Pair>(ini) : new xenium::left_right<Pair>(ini, ini);
  for (int w = 0; w < W; w++)
    spawn([=] {
      for (int i = 0; i < U; i++) {
        int calls = 0;
        op_begin(1, 1, 0, false);
        lr->update([&calls](Pair& p) {
          p.a++; // plain accesses: a reader on the instance being modified is a data race
          p.b++;
          calls++;
        });
        op_end();
        if (calls != 2) fail("ORACLE", "update functor was applied %d times instead of once per instance", calls);
      }
    });
  for (int r = 0; r < Rn; r++)
    spawn([=] {
      for (int i = 0; i < L; i++) {
        op_begin(2);
        long v;
        if (i & 1) {
          // a functor that returns a reference: read() must hand out a copy made while the reader is still registered
          // (return type auto, i.e. decayed) - a reference into the instance would be read after the guard has departed
          Pair snap = lr->read([](const Pair& p) -> const Pair& { return p; });
          if (snap.a != snap.b) fail("TORN", "snapshot returned by read() is half-updated: a=%d b=%d", snap.a, snap.b);
          v = snap.a;
        } else
          v = lr->read([](const Pair& p) {
            int a = p.a, b = p.b;
            if (a != b) fail("TORN", "read functor saw a half-updated instance: a=%d b=%d", a, b);
            return (long)a;
          });
        op_end(v - init);
      }
    });
  join_all();
  // every update was applied exactly once to each of the two instances, in the same order: one more update
  // sees both instances; both must hold the total
  int seen[2], n = 0;
  op_begin(1, 0, 0, false);
  lr->update([&](Pair& p) {
    if (n < 2) seen[n] = p.a * 1000 + p.b;
    n++;
  });
  op_end();
  int total = W * U + init;
  if (n != 2 || seen[0] != total * 1001 || seen[1] != total * 1001)
    fail("ORACLE", "after %d updates the two instances hold %d and %d (encoded a*1000+b)", total, seen[0], n > 1 ? seen[1] : -1);
  op_begin(2);
  long v = lr->read([](const Pair& p) { return (long)p.a; });
  op_end(v - init);
  delete lr;
  lin::require_linearizable(RegisterSpec{}, "an atomic counter (reads linearizable with updates)");
}
XMC_TEST_FN("left_right", &left_right_test, "left_right<Pair>: writers x updates, readers x loads");

// =================================================================================================
// C14 seqlock
// =================================================================================================
template <int N, int Align>
struct alignas(Align) Blob { // N bytes, every byte derived from the tag so that torn / truncated copies are visible
  unsigned char b[N];
  Blob() { memset(b, 0, N); }
  static Blob make(int tag) {
    Blob x;
    for (int i = 0; i < N; i++) x.b[i] = (unsigned char)(tag * 16 + (i % 13) + (tag ? 1 : 0) * 0);
    for (int i = 0; i < N; i++) x.b[i] = (unsigned char)((tag * 29 + i * 7 + tag * i) & 0xff);
    x.b[0] = (unsigned char)tag;
    return x;
  }
  int tag() const { return b[0]; }
  bool consistent() const {
    Blob y = make(b[0]);
    return memcmp(y.b, b, N) == 0;
  }
};

template <class T, unsigned Slots>
void seqlock_test() {
  set_op_names(kOps, 3);
  const int W = (int)opt("writers", 1), U = (int)opt("stores", 2), Rn = (int)opt("readers", 1), L = (int)opt("loads", 2);
  const int use_update = (int)opt("use_update", 1);
  // --opt noop=1: every second update leaves the value bit-identical (a saturating / conditional functor); =2: all of them
  const int noop = (int)opt("noop", 0);
  using SL = xenium::seqlock<T, xenium::policy::slots<Slots>>;
  auto* sl = new SL(T::make(0));
  constexpr bool load_lockfree = Slots > 1;
  for (int w = 0; w < W; w++)
    spawn([=] {
      for (int i = 0; i < U; i++) {
        int tag = 1 + w * 8 + i;
        if (use_update && i % 2 == 1 && (noop == 2 || (noop == 1 && (i / 2 + w) % 2 == 0))) {
          op_begin(1, 0, 0, false);
          sl->update([](T& v) {
            if (!v.consistent()) fail("TORN", "update functor received a torn value (tag byte %d)", v.tag());
          });
          op_end();
        } else if (use_update && i % 2 == 1) {
          op_begin(1, 64, 0, false);
          sl->update([](T& v) {
            if (!v.consistent()) fail("TORN", "update functor received a torn value (tag byte %d)", v.tag());
            v = T::make(v.tag() + 64);
          });
          op_end();
        } else {
          op_begin(0, tag, 0, false);
          sl->store(T::make(tag));
          op_end();
        }
      }
    });
  for (int r = 0; r < Rn; r++)
    spawn([=] {
      for (int i = 0; i < L; i++) {
        op_begin(2, 0, 0, load_lockfree);
        T v = sl->load();
        if (!v.consistent()) fail("TORN", "load returned a value that is not bit-identical to any stored value (tag byte %d)", v.tag());
        op_end(v.tag());
      }
    });
  join_all();
  op_begin(2, 0, 0, load_lockfree);
  T v = sl->load();
  if (!v.consistent()) fail("TORN", "final load returned a value that is not bit-identical to any stored value (tag byte %d)", v.tag());
  op_end(v.tag());
  delete sl;
  lin::require_linearizable(RegisterSpec{}, "an atomic register (store/update take effect atomically)");
}

// sequential: every byte of T must round-trip through store/load and update for walking patterns
template <class T, unsigned Slots>
void seqlock_roundtrip() {
  using SL = xenium::seqlock<T, xenium::policy::slots<Slots>>;
  auto* sl = new SL();
  constexpr int N = sizeof(T);
  for (int pass = 0; pass < 3 * (int)Slots + 2; pass++) {
    for (int i = 0; i < N; i++) {
      T x;
      memset(&x, pass % 2 ? 0xff : 0x00, N);
      reinterpret_cast<unsigned char*>(&x)[i] = (unsigned char)(0x5a + pass + i);
      sl->store(x);
      T y = sl->load();
      if (memcmp(&x, &y, N) != 0) {
        int k = 0;
        while (reinterpret_cast<unsigned char*>(&x)[k] == reinterpret_cast<unsigned char*>(&y)[k]) k++;
        fail("TRUNCATED", "load() after store() differs in byte %d of %d (stored %#x, loaded %#x)", k, N, reinterpret_cast<unsigned char*>(&x)[k],
             reinterpret_cast<unsigned char*>(&y)[k]);
      }
      sl->update([i](T& v) { reinterpret_cast<unsigned char*>(&v)[N - 1 - i] ^= 0x81; });
      reinterpret_cast<unsigned char*>(&x)[N - 1 - i] ^= 0x81;
      y = sl->load();
      if (memcmp(&x, &y, N) != 0) fail("TRUNCATED", "load() after update() differs from the updated value (size %d)", N);
      // an update whose functor leaves the value untouched (saturating counter, "modify only if ...") is still an update
      for (int rep = 0; rep <= (pass + i) % 3; rep++) {
        sl->update([](T&) {});
        y = sl->load();
        if (memcmp(&x, &y, N) != 0) fail("STALE", "load() after %d update(s) that left the value unchanged differs from the current value (size %d, %u slots)", rep + 1, N, Slots);
      }
      if ((pass + i) % 4 == 0) {
        sl->update([&x](T& v) { if (memcmp(&v, &x, N) != 0) v = x; });
        y = sl->load();
        if (memcmp(&x, &y, N) != 0) fail("STALE", "load() after a conditional update differs from the current value (size %d)", N);
      }
    }
  }
  mark_nontrivial();
  note("round trip of %d-byte type, %u slots", N, Slots);
  delete sl;
}

#define SLT(name, T, S) XMC_TEST_FN("seqlock_" name, (&seqlock_test<T, S>), "seqlock concurrent " name)
#define SLR(name, T, S) XMC_TEST_FN("seqrt_" name, (&seqlock_roundtrip<T, S>), "seqlock sequential round trip " name)
using B16 = Blob<16, 8>;
using B24 = Blob<24, 8>;
using B12 = Blob<12, 4>;
using B20 = Blob<20, 4>;
using B9 = Blob<9, 1>;
using B28 = Blob<28, 4>;
SLT("b16_s1", B16, 1);
SLT("b16_s2", B16, 2);
SLT("b16_s3", B16, 3);
SLT("b24_s2", B24, 2);
SLT("b12_s2", B12, 2);
SLT("b16_s4", B16, 4);
SLR("b16_s1", B16, 1);
SLR("b16_s2", B16, 2);
SLR("b16_s8", B16, 8);
SLR("b24_s3", B24, 3);
SLR("b12_s1", B12, 1);
SLR("b12_s2", B12, 2);
SLR("b20_s2", B20, 2);
SLR("b28_s4", B28, 4);
SLR("b9_s1", B9, 1);
SLR("b9_s2", B9, 2);
} // namespace
