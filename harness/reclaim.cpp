// C01 / C02 / C17: the reclaimer protocol, driven directly through concurrent_ptr / guard_ptr / region_guard.
//
// Shared state: `cells` concurrent_ptr<Node,1> cells, each initially holding a node.  Every thread runs a
// program of operations (all enumerated through DATA choices); all are protocol conforming: a node is
// retired exactly once, by the thread whose CAS unlinked it, guards never leave their thread.
//
// Ledger (uninstrumented counters):  ALIVE+id (1 between ctor and dtor), DTOR+id (#destructor runs),
// DEL+id (#deleter invocations), DELBAD (#deleter invocations with the wrong deleter instance),
// RETIRED+id (1 once handed to reclaim).
#include "harness/common.h"

#include <xenium/acquire_guard.hpp>

using namespace xmc;

namespace {
constexpr int ALIVE = 0, DTOR = 10000, DEL = 20000, RETIRED = 30000, DELBAD = 40000, NEXTID = 40001, NDUMMY = 40002, DUMMY_BASE = 5000;
constexpr int TAG_NODE = 1;

const char* const kOps[] = {"read", "read_hold", "read_if_equal", "copy_read", "move_read", "replace", "remove", "rg_read", "none", "rg_hold", "flush", "final_remove"};
enum { OP_READ, OP_READ_HOLD, OP_READ_IFEQ, OP_COPY_READ, OP_MOVE_READ, OP_REPLACE, OP_REMOVE, OP_RG_READ, OP_NONE, OP_RG_HOLD, OP_FLUSH, OP_FINAL_REMOVE, NOPS_ALPHABET = 10 };

template <class R, bool CustomDeleter>
struct NodeT;

template <class R>
struct DelT {
  int tag = -1;
  void operator()(NodeT<R, true>* n) const;
};

template <class R>
struct NodeT<R, true> : R::template enable_concurrent_ptr<NodeT<R, true>, 1, DelT<R>> {
  int id;
  int payload;
  explicit NodeT(int i) : id(i), payload(i * 7 + 3) { cell_set(ALIVE + id, 1); }
  ~NodeT() {
    cell_add(DTOR + id, 1);
    cell_set(ALIVE + id, 0);
    payload = -1;
  }
};
template <class R>
void DelT<R>::operator()(NodeT<R, true>* n) const {
  cell_add(DEL + n->id, 1);
  if (tag != n->id + 100) cell_add(DELBAD, 1);
  delete n;
}

template <class R>
struct NodeT<R, false> : R::template enable_concurrent_ptr<NodeT<R, false>, 1> {
  int id;
  int payload;
  explicit NodeT(int i) : id(i), payload(i * 7 + 3) { cell_set(ALIVE + id, 1); }
  ~NodeT() {
    cell_add(DTOR + id, 1);
    cell_set(ALIVE + id, 0);
    payload = -1;
  }
};

template <class R, bool CD>
struct Proto {
  using Node = NodeT<R, CD>;
  using CP = typename R::template concurrent_ptr<Node, 1>;
  using MP = typename CP::marked_ptr;
  using GP = typename CP::guard_ptr;

  static Node* make() {
    int prev = heap_tag(TAG_NODE);
    Node* n = new Node((int)cell_add(NEXTID, 1));
    heap_tag(prev);
    return n;
  }
  static void retire(GP& g) {
    int id = g->id;
    cell_set(RETIRED + id, 1);
    if constexpr (CD) g.reclaim(DelT<R>{id + 100});
    else
      g.reclaim();
  }
  // the node behind a guard must be alive, not destroyed, and carry its own payload
  static void deref(const GP& g, int expect_id, const char* what) {
    Node* n = g.get();
    int id = n->id;
    if (expect_id >= 0 && id != expect_id)
      fail("GUARD", "%s: guarded node changed identity (%d -> %d): its memory was reused while protected", what, expect_id, id);
    if (cell_get(DTOR + id) != 0 || cell_get(ALIVE + id) != 1)
      fail("GUARD", "%s: node %d was destroyed while a guard_ptr protects it", what, id);
    if (n->payload != id * 7 + 3) fail("GUARD", "%s: node %d has a corrupted payload %d", what, id, n->payload);
  }

  struct ThreadCtx {
    GP held;
    int held_id = -1;
  };

  static void do_op(int op, CP& c, ThreadCtx& ctx) {
    switch (op) {
      case OP_READ: {
        GP g;
        g.acquire(c, std::memory_order_acquire);
        if (g) deref(g, -1, "acquire");
        break;
      }
      case OP_RG_READ: {
        typename R::region_guard rg;
        {
          GP g;
          g.acquire(c, std::memory_order_acquire);
          if (g) deref(g, -1, "acquire in region");
        }
        {
          GP g = xenium::acquire_guard(c, std::memory_order_acquire); // the helper of xenium/acquire_guard.hpp
          if (g) deref(g, -1, "second acquire in region");
        }
        break;
      }
      case OP_RG_HOLD: {
        // guard_ptr and region_guard lifetimes that are not nested the way the repository's tests nest them (seed C01d): a guard acquired inside a
        // region_guard scope outlives it; if the thread already holds a guard, a region_guard (with another guarded access) is opened and closed next to it
        {
          typename R::region_guard rg;
          GP g;
          g.acquire(c, std::memory_order_acquire);
          if (g) {
            deref(g, -1, "acquire in region");
            if (!ctx.held) {
              ctx.held_id = g->id;
              ctx.held = std::move(g);
            }
          }
        }
        if (ctx.held) deref(ctx.held, ctx.held_id, "guard that outlives a region_guard");
        break;
      }
      case OP_READ_HOLD: {
        GP g;
        g.acquire(c, std::memory_order_acquire);
        if (g) {
          deref(g, -1, "acquire");
          ctx.held_id = g->id;
          ctx.held = std::move(g);
          if (g) fail("ALGEBRA", "moved-from guard is not empty");
        }
        break;
      }
      case OP_READ_IFEQ: {
        MP p = c.load(std::memory_order_relaxed);
        GP g;
        bool ok = g.acquire_if_equal(c, p, std::memory_order_acquire);
        if (ok) {
          if (MP(g) != p) fail("ALGEBRA", "acquire_if_equal returned true but guards a different pointer");
          if (g) deref(g, -1, "acquire_if_equal");
        } else if (g) {
          fail("ALGEBRA", "acquire_if_equal returned false but left the guard non-empty");
        }
        break;
      }
      case OP_COPY_READ: {
        GP g;
        g.acquire(c, std::memory_order_acquire);
        if (g) {
          int id = g->id;
          GP g2(g);
          g.reset();
          deref(g2, id, "copy of a guard after the original was reset");
          GP g3;
          g3 = g2;
          g2.reset();
          deref(g3, id, "copy-assigned guard after the source was reset");
          // copy "downwards": the first guard's hazard pointer slot is free again, so this copy lands in a slot
          // that a concurrent scan may already have passed
          GP g4(g3);
          g3.reset();
          deref(g4, id, "copy of a copy after all earlier guards were reset");
        }
        break;
      }
      case OP_MOVE_READ: {
        GP g;
        g.acquire(c, std::memory_order_acquire);
        if (g) {
          int id = g->id;
          GP g2(std::move(g));
          deref(g2, id, "move-constructed guard");
          GP g3;
          g3 = std::move(g2);
          deref(g3, id, "move-assigned guard");
          GP g4;
          g4.swap(g3);
          deref(g4, id, "swapped guard");
        }
        break;
      }
      case OP_REPLACE: {
        Node* n = make();
        GP g;
        for (;;) {
          g.acquire(c, std::memory_order_acquire);
          MP expected(g);
          if (c.compare_exchange_strong(expected, MP(n), std::memory_order_acq_rel, std::memory_order_relaxed)) break;
        }
        if (g) {
          deref(g, -1, "unlinked node before retire");
          retire(g);
        }
        break;
      }
      case OP_REMOVE: {
        GP g;
        for (;;) {
          g.acquire(c, std::memory_order_acquire);
          if (!g) break;
          MP expected(g);
          if (c.compare_exchange_strong(expected, MP(), std::memory_order_acq_rel, std::memory_order_relaxed)) break;
        }
        if (g) {
          deref(g, -1, "unlinked node before retire");
          retire(g);
        }
        break;
      }
    }
  }

  static void thread_body(CP* cells, int ncells, const int* ops, const int* cellidx, int m, bool hold_across_exit) {
    ThreadCtx ctx;
    for (int i = 0; i < m; i++) {
      if (ops[i] == OP_NONE) continue; // the thread reaches its exit earlier
      op_begin(ops[i], cellidx[i]);
      do_op(ops[i], cells[cellidx[i]], ctx);
      op_end();
    }
    if (ctx.held) {
      point(); // the held guard is used "some time later": other threads may run in between
      op_begin(OP_READ_HOLD, -1);
      deref(ctx.held, ctx.held_id, "guard held across later operations");
      ctx.held.reset();
      if (ctx.held) fail("ALGEBRA", "reset guard is not empty");
      ctx.held.reset(); // double reset is harmless
      op_end();
    }
    (void)hold_across_exit;
  }

  // scheme independent flush through the public API only
  static void flush(int rounds) {
    for (int i = 0; i < rounds; i++) {
      typename R::region_guard rg;
      int prev = heap_tag(TAG_NODE);
      Node* d = new Node(DUMMY_BASE + (int)cell_add(NDUMMY, 1));
      heap_tag(prev);
      GP g{MP(d)};
      retire(g);
    }
  }

  static void census(int first_id, int last_id, const char* when) {
    if (cell_get(DELBAD)) fail("DELETER", "%s: a retired object was destroyed by another object's deleter instance", when);
    for (int id = first_id; id <= last_id; id++) {
      long d = cell_get(DTOR + id), r = cell_get(RETIRED + id), del = cell_get(DEL + id);
      if (d > 1) fail("DOUBLE_DESTROY", "%s: node %d destroyed %ld times", when, id, d);
      if (d == 1 && !r) fail("DESTROYED_UNRETIRED", "%s: node %d destroyed although it was never retired", when, id);
      if (r && d == 0) fail("LEAK", "%s: retired node %d was not destroyed after the flush", when, id);
      if (CD && r && del != 1) fail("DELETER", "%s: deleter of node %d ran %ld times", when, id, del);
    }
  }

  // ------------------------------------------------------------------------------------------
  // test bodies
  // ------------------------------------------------------------------------------------------
  // all programs: T threads x m ops over (alphabet given by bitmask `ops`) x cells
  static void all_programs() {
    set_op_names(kOps, 12);
    const int T = (int)opt("T", 2), m = (int)opt("m", 2), ncells = (int)opt("cells", 1);
    const long mask = opt("ops", 0xff);
    const int gens = (int)opt("gens", 1);
    // rounds of the final public-API flush: schemes that look at one thread record per critical-region entry (debra)
    // need (records) entries per epoch and three epochs; 8 rounds were too few for three worker threads (false LEAK)
    const int flush_rounds = (int)opt("flush", 6 * (T + 1) + 6);
    int alpha[16], na = 0;
    for (int o = 0; o < NOPS_ALPHABET; o++)
      if (mask & (1 << o)) alpha[na++] = o;
    cell_set(NEXTID, 0);
    CP* cells = new CP[ncells];
    for (int i = 0; i < ncells; i++) cells[i].store(MP(make()), std::memory_order_relaxed);
    // C17 bookkeeping bound: T0 warms up first (acquires its own thread record with the same guard usage as a
    // worker); the footprint u of one thread is measured, and with T workers alive at the same time the
    // bookkeeping may never exceed warm + T*u, no matter how many generations have come and gone.
    long bk_before = heap_live_with_tag(0), bk_warm = -1, unit = 0;
    if (gens > 1) {
      ThreadCtx wctx;
      op_begin(OP_FLUSH);
      do_op(OP_COPY_READ, cells[0], wctx);
      do_op(OP_RG_READ, cells[0], wctx);
      flush(1);
      // the footprint of one thread record is an upper bound only if T0 has needed at least as many protection
      // slots at the same time as any worker can: with the dynamic strategies a record grows with the number of
      // simultaneously held guards (hazard eras: guards acquired in different eras), which for a worker depends on
      // the schedule.  No operation holds more than 3 guards; T0 holds 5, each acquired in a later era.  (The first
      // version measured only the sequential usage and raised a false BOOKKEEPING alarm for dynamic hazard eras
      // in the thorough tier.)  Static strategies refuse the extra guards: harmless.
      try {
        GP h[5];
        for (int k = 0; k < 5; k++) {
          h[k].acquire(cells[0], std::memory_order_acquire);
          flush(1);
        }
      } catch (const std::exception&) {
      }
      op_end();
      bk_warm = heap_live_with_tag(0);
      unit = bk_warm - bk_before;
    }
    // Start from non-initial states: before the first generation T0 passes through 0 .. phases-1 further critical
    // regions, each with one retirement (epoch based schemes: the global epoch - and with it every index computed
    // modulo the number of epochs - differs by one per round; hazard eras: the era clock; seed C17d: an adopted
    // control block misplaces retired nodes only if the epoch is 2 modulo 3).  Enumerated as a DATA choice.
    const int phases = (int)opt("phases", 1);
    if (phases > 1) {
      const int k = choose(phases);
      op_begin(OP_FLUSH);
      flush(k);
      op_end();
    }
    for (int gen = 0; gen < gens; gen++) {
      // choose the program of this generation
      static int ops[MAXT][8], cix[MAXT][8];
      bool any_update = false, any_read = false;
      const int fixed = (int)opt("fixed", 0);
      if (fixed == 1) {
        // adversarial family "recycle behind a reader's back" (needs cells=2, T=2, m=2): a reader of cell 0 against a
        // writer that replaces cell 0 (retiring the node the reader is about to guard) and then allocates again
        // for cell 1 - with type-stable memory (lock_free_ref_count) the second allocation reuses the node.
        static const int fo[2][2] = {{OP_READ, OP_NONE}, {OP_REPLACE, OP_REPLACE}};
        static const int fc[2][2] = {{0, 0}, {0, 1}};
        for (int t = 0; t < 2; t++)
          for (int i = 0; i < 2; i++) {
            ops[t][i] = fo[t][i];
            cix[t][i] = fc[t][i];
          }
        any_update = any_read = true;
      } else if (fixed == 2) {
        // adversarial family "ABA under a conditional acquire" (needs T=3, m=2, run with --heap reuse): a reader
        // inside acquire_if_equal against a writer that replaces the node twice - the second allocation reuses
        // the address of the node the reader saw, so the reader's re-validation by pointer value succeeds for a
        // *younger* object - and a third thread that then unlinks and retires that younger object.
        static const int fo[3][2] = {{OP_READ_IFEQ, OP_NONE}, {OP_REPLACE, OP_REPLACE}, {OP_REPLACE, OP_NONE}};
        if (T != 3 || m != 2) fail("ENGINE", "fixed=2 needs T=3 m=2");
        for (int t = 0; t < 3; t++)
          for (int i = 0; i < 2; i++) {
            ops[t][i] = fo[t][i];
            cix[t][i] = 0;
          }
        any_update = any_read = true;
      }
      else if (fixed == 3) {
        // family "adopt a control block next to a long reader" (needs T=3, m>=2, cells=2; run with phases=3*(scan_frequency+1)): a reader that holds
        // its guard across everything else | a thread that only reads and exits | a thread that starts afterwards (and
        // adopts the exited thread's record), unlinks and retires the node the reader holds, and enters one more (through the second cell)
        // critical region (configurations that scan only every n-th entry: m - 1 more).
        if (T != 3 || m < 2) fail("ENGINE", "fixed=3 needs T=3 m>=2");
        for (int i = 0; i < m; i++) {
          ops[0][i] = i == 0 ? OP_READ_HOLD : OP_NONE; // the reader comes first: it has its own record before the second thread exits
          ops[1][i] = i == 0 ? OP_READ : OP_NONE;
          ops[2][i] = i == 0 ? OP_REMOVE : OP_READ;
          cix[0][i] = cix[1][i] = 0;
          cix[2][i] = (i > 0 && ncells > 1) ? 1 : 0; // reading an emptied cell would not enter a critical region
        }
        any_update = any_read = true;
      }
      else if (fixed == 4) {
        // family "a guard_ptr that outlives a region_guard" (needs T=2, m=4): a reader whose guard is acquired inside a region_guard scope and used after
        // it (variant 1: acquired first, a region_guard is opened and closed next to it) | a writer that unlinks and retires the node and then enters three
        // more critical regions - enough for every epoch based configuration that scans at each entry to reclaim it, were the reader not protected
        if (T != 2 || m != 4) fail("ENGINE", "fixed=4 needs T=2 m=4");
        const int variant = choose(2);
        for (int i = 0; i < 4; i++) {
          ops[0][i] = variant == 0 ? (i == 0 ? OP_RG_HOLD : OP_NONE) : (i == 0 ? OP_READ_HOLD : i == 1 ? OP_RG_HOLD : OP_NONE);
          ops[1][i] = i == 0 ? OP_REPLACE : OP_READ;
          cix[0][i] = cix[1][i] = 0;
        }
        any_update = any_read = true;
      }
      for (int t = 0; t < T && !fixed; t++)
        for (int i = 0; i < m; i++) {
          ops[t][i] = alpha[choose(na)];
          cix[t][i] = ncells > 1 ? choose(ncells) : 0;
          if (ops[t][i] == OP_REPLACE || ops[t][i] == OP_REMOVE) any_update = true;
          else if (ops[t][i] != OP_NONE)
            any_read = true;
        }
      if (!any_update || (!any_read && !opt("allow_update_only", 0))) prune();
      // thread-symmetry: identical roles only once
      for (int t = 0; t + 1 < T && !fixed; t++) {
        int cmp = 0;
        for (int i = 0; i < m && !cmp; i++) cmp = (ops[t][i] * 8 + cix[t][i]) - (ops[t + 1][i] * 8 + cix[t + 1][i]);
        if (cmp > 0) prune();
      }
      for (int t = 0; t < T; t++) spawn([cells, ncells, t, m] { thread_body(cells, ncells, ops[t], cix[t], m, false); });
      join_all();
      if (gens > 1) {
        // C17: after every generation a live thread flushes; everything retired so far must be gone and
        // the bookkeeping footprint must not grow with the number of generations
        op_begin(OP_FLUSH);
        flush(flush_rounds);
        op_end();
        census(1, (int)cell_get(NEXTID), "after a thread generation");
        long bk = heap_live_with_tag(0);
        if (opt("dump", 0)) { note("-- after generation %d:", gen + 1); heap_note_live(0); }
        if (bk > bk_warm + T * unit)
          fail("BOOKKEEPING", "live bookkeeping allocations after generation %d: %ld, more than the %ld of T0 plus %d x %ld for the %d threads alive at a time",
               gen + 1, bk, bk_warm, T, unit, T);
      }
    }
    // unlink what is still published, flush, census
    ThreadCtx ctx;
    for (int i = 0; i < ncells; i++) {
      op_begin(OP_FINAL_REMOVE, i);
      do_op(OP_REMOVE, cells[i], ctx);
      op_end();
    }
    op_begin(OP_FLUSH);
    flush(flush_rounds);
    op_end();
    census(1, (int)cell_get(NEXTID), "at the quiescent end");
    // C17, backlog bound: every other thread has exited; T0 retires unprotected dummies one at a time.  How many it
    // may accumulate before the first one is destroyed must be bounded by the threads alive at a time (option value =
    // the bound for this configuration), not by the number of threads that have ever existed.
    const long backlog = opt("backlog", 0);
    if (backlog > 0) {
      op_begin(OP_FLUSH);
      int ids[64], n = 0;
      bool destroyed = false;
      while (!destroyed && n < backlog + 3 && n < 64) {
        {
          typename R::region_guard rg;
          int prev = heap_tag(TAG_NODE);
          Node* d = new Node(DUMMY_BASE + (int)cell_add(NDUMMY, 1));
          heap_tag(prev);
          ids[n++] = d->id;
          GP g{MP(d)};
          retire(g);
        }
        for (int k = 0; k < n; k++) destroyed |= cell_get(DTOR + ids[k]) != 0;
      }
      op_end();
      if (!destroyed || n > backlog)
        fail("BACKLOG", "a lone thread retired %d unprotected nodes %s although at most %ld may accumulate with the threads alive at a time", n,
             destroyed ? "before the first one was destroyed" : "and none was destroyed", backlog);
    }
    delete[] cells;
  }
};

#define REG(name, R, CD) XMC_TEST_FN("proto_" name, (&Proto<R, CD>::all_programs), "reclaimer protocol, all programs: " name)
REG("hp", rec::HPs<3>, true);
REG("hpd", rec::HPd<1>, true);
REG("he", rec::HEs<3>, true);
REG("hed", rec::HEd<1>, true);
REG("hp_a1", rec::HPs_A1, true);
REG("hpd_a1", rec::HPd_A1, true);
REG("he_a1", rec::HEs_A1, true);
REG("hed_a1", rec::HEd_A1, true);
REG("qsbr", rec::QSBR, true);
REG("ebr", rec::EBR, true);
REG("nebr", rec::NEBR, true);
REG("debra", rec::DEBRA, true);
REG("gebr_lazy", rec::GEBR_LAZY, true);
REG("gebr_thr", rec::GEBR_THR, true);
REG("ebr_f2", rec::EBR_F2, true);
REG("debra_f1", rec::DEBRA_F1, true);
REG("gebr_f3", rec::GEBR_F3, true);
REG("hp_b2", rec::HPs_B2, true);
REG("hed_b2", rec::HEd_B2, true);
REG("stamp", rec::STAMP, true);
REG("lfrc", rec::LFRC, false);
REG("lfrc_tl", rec::LFRC_TL, false);
} // namespace
