// C08: harris_michael_list_based_set / harris_michael_hash_map are linearizable sets / maps.
#include "harness/common.h"

#include <xenium/harris_michael_hash_map.hpp>
#include <xenium/harris_michael_list_based_set.hpp>

using namespace xmc;

namespace {
const char* const kOps[] = {"emplace", "erase", "contains", "find", "emplace_or_get", "get_or_emplace", "get_or_emplace_lazy", "erase_find", "index", "snapshot"};
enum { O_EMPLACE, O_ERASE, O_CONTAINS, O_FIND, O_EMPLACE_OR_GET, O_GET_OR_EMPLACE, O_GET_OR_EMPLACE_LAZY, O_ERASE_FIND, O_INDEX, O_SNAPSHOT, NOPS = 9 };
constexpr int NKEYS = 4; // keys 0..3

// sequential map spec; a set is a map whose values equal the keys. val[k] < 0: absent.
struct MapSpec {
  int val[NKEYS] = {-1, -1, -1, -1};
  int variants(const Event& e) const { return e.op == O_ERASE_FIND && e.r0 ? 2 : 1; }
  bool apply(const Event& e, int variant) {
    int k = (int)e.a0;
    switch (e.op) {
      case O_EMPLACE:
        if (e.r0) {
          if (val[k] >= 0) return false;
          val[k] = (int)e.a1;
          return true;
        }
        return val[k] >= 0;
      case O_ERASE:
        if (e.r0) {
          if (val[k] < 0) return false;
          val[k] = -1;
          return true;
        }
        return val[k] < 0;
      case O_CONTAINS: return (e.r0 != 0) == (val[k] >= 0);
      case O_FIND: // r0 = found, r1 = value seen
        if (e.r0) return val[k] >= 0 && val[k] == e.r1;
        return val[k] < 0;
      case O_INDEX: // operator[]: inserts a default constructed value (0) if absent; r1 = value now associated
        if (val[k] < 0) {
          if (e.r1 != 0) return false;
          val[k] = 0;
          return true;
        }
        return val[k] == e.r1;
      case O_EMPLACE_OR_GET:
      case O_GET_OR_EMPLACE:
      case O_GET_OR_EMPLACE_LAZY: // r0 = inserted, r1 = value now associated
        if (e.r0) {
          if (val[k] >= 0) return false;
          val[k] = (int)e.r1;
          return true;
        }
        return val[k] >= 0 && val[k] == e.r1;
      case O_ERASE_FIND:
        // find(k) + erase(iterator): r0 = found (with value r1).  The two steps are one recorded operation:
        // when found, the element is absent afterwards - removed by this call (variant 0) or, concurrently,
        // by somebody else after the find (variant 1: the find part only)
        if (!e.r0) return val[k] < 0;
        if (val[k] < 0 || val[k] != e.r1) return false;
        if (variant == 0) val[k] = -1;
        return true;
      case O_SNAPSHOT: { // a0 unused; r0 = bitmask of keys, r1 = sum of values*weights
        long mask = 0, sum = 0;
        for (int i = 0; i < NKEYS; i++)
          if (val[i] >= 0) {
            mask |= 1 << i;
            sum += (long)val[i] * (i + 1);
          }
        return mask == e.r0 && sum == e.r1;
      }
    }
    return false;
  }
  uint64_t hash() const {
    uint64_t h = 0;
    for (int i = 0; i < NKEYS; i++) h = h * 257 + (uint64_t)(val[i] + 1);
    return h;
  }
};

// a key type whose move constructor modifies its source (like std::string): a key that has been moved into a node
// must not be used for the search afterwards (seed C08c)
struct MKey {
  int v;
  MKey(int x = 0) : v(x) {} // NOLINT: implicit on purpose, the adapters pass ints
  MKey(const MKey&) = default;
  MKey& operator=(const MKey&) = default;
  MKey(MKey&& o) noexcept : v(o.v) { o.v = -7; }
  MKey& operator=(MKey&& o) noexcept {
    v = o.v;
    o.v = -7;
    return *this;
  }
  friend bool operator==(const MKey& a, const MKey& b) { return a.v == b.v; }
  friend bool operator!=(const MKey& a, const MKey& b) { return a.v != b.v; }
  friend bool operator<(const MKey& a, const MKey& b) { return a.v < b.v; }
  friend bool operator>(const MKey& a, const MKey& b) { return a.v > b.v; }
  friend bool operator<=(const MKey& a, const MKey& b) { return a.v <= b.v; }
  friend bool operator>=(const MKey& a, const MKey& b) { return a.v >= b.v; }
};
} // namespace
namespace std {
template <>
struct hash<MKey> { // (the maps below are given their hash through policy::hash; this only keeps xenium::hash<MKey> instantiable)
  size_t operator()(const MKey& k) const { return (size_t)k.v * 2654435761u; }
};
} // namespace std
namespace {
inline int key_int(int k) { return k; }
inline int key_int(const MKey& k) { return k.v; }
template <class H>
struct HashOfMKey {
  std::size_t operator()(const MKey& k) const { return H{}(k.v); }
};

// hash functors --------------------------------------------------------------------------------------
struct HashIdentity {
  std::size_t operator()(int k) const { return (std::size_t)k; }
};
struct HashConst {
  std::size_t operator()(int) const { return 7; }
};
struct HashScramble { // order by hash disagrees with order by key: 0->5, 1->3, 2->6, 3->3
  std::size_t operator()(int k) const {
    static const std::size_t h[4] = {5, 3, 6, 3};
    return h[k & 3];
  }
};

struct HashThreeOne { // with two buckets: keys 0, 1, 2 share bucket 0 (in key order), key 3 is alone in bucket 1
  std::size_t operator()(int k) const {
    static const std::size_t h[4] = {0, 2, 4, 1};
    return h[k & 3];
  }
};

// adapters -------------------------------------------------------------------------------------------
template <class S>
struct SetAdapter {
  using C = S;
  static constexpr bool is_map = false;
  static bool supports(int op) { return op == O_EMPLACE || op == O_ERASE || op == O_CONTAINS || op == O_FIND || op == O_EMPLACE_OR_GET || op == O_ERASE_FIND; }
  static void apply(C& c, int op, int k, int v, long& r0, long& r1) {
    (void)v;
    switch (op) {
      case O_EMPLACE: r0 = c.emplace(k); break;
      case O_ERASE: r0 = c.erase(k); break;
      case O_CONTAINS: r0 = c.contains(k); break;
      case O_FIND: {
        auto it = c.find(k);
        r0 = it != c.end();
        if (r0) r1 = *it;
        break;
      }
      case O_EMPLACE_OR_GET: {
        auto res = c.emplace_or_get(k);
        r0 = res.second;
        r1 = *res.first;
        break;
      }
      case O_ERASE_FIND: {
        auto it = c.find(k);
        r0 = it != c.end();
        if (r0) {
          r1 = *it;
          c.erase(std::move(it));
        }
        break;
      }
    }
  }
  static void snapshot(C& c, long& mask, long& sum) {
    for (auto it = c.begin(); it != c.end(); ++it) {
      int k = *it;
      if (mask & (1 << k)) fail("ORACLE", "final iteration yields key %d twice", k);
      mask |= 1 << k;
      sum += (long)k * (k + 1);
    }
  }
  static int value_for(int k, int) { return k; }
};

template <class M>
struct MapAdapter {
  using C = M;
  static constexpr bool is_map = true;
  static bool supports(int op) { return op >= 0 && op < NOPS; }
  static void apply(C& c, int op, int k, int v, long& r0, long& r1) {
    switch (op) {
      case O_EMPLACE: r0 = c.emplace(k, v); break;
      case O_ERASE: r0 = c.erase(k); break;
      case O_CONTAINS: r0 = c.contains(k); break;
      case O_FIND: {
        auto it = c.find(k);
        r0 = it != c.end();
        if (r0) {
          if (key_int(it->first) != k) fail("ORACLE", "find(%d) returned an iterator to key %d", k, key_int(it->first));
          r1 = it->second;
        }
        break;
      }
      case O_EMPLACE_OR_GET: {
        auto res = c.emplace_or_get(k, v);
        r0 = res.second;
        if (key_int(res.first->first) != k) fail("ORACLE", "emplace_or_get(%d) returned an iterator to key %d", k, key_int(res.first->first));
        r1 = res.first->second;
        break;
      }
      case O_GET_OR_EMPLACE: {
        auto res = c.get_or_emplace(k, v);
        r0 = res.second;
        if (key_int(res.first->first) != k) fail("ORACLE", "get_or_emplace(%d) returned an iterator to key %d", k, key_int(res.first->first));
        r1 = res.first->second;
        break;
      }
      case O_GET_OR_EMPLACE_LAZY: {
        int calls = 0;
        auto res = c.get_or_emplace_lazy(k, [&calls, v] {
          calls++;
          return v;
        });
        r0 = res.second;
        if (key_int(res.first->first) != k) fail("ORACLE", "get_or_emplace_lazy(%d) returned an iterator to key %d", k, key_int(res.first->first));
        r1 = res.first->second;
        if (r0 && calls < 1) fail("ORACLE", "get_or_emplace_lazy inserted without calling the factory");
        break;
      }
      case O_ERASE_FIND: {
        auto it = c.find(k);
        r0 = it != c.end();
        if (r0) {
          r1 = it->second;
          c.erase(std::move(it));
        }
        break;
      }
      case O_INDEX: {
        // operator[]: inserts a default constructed value (0) if absent; we then cannot tell "inserted" from
        // "found 0", values used by the other operations are never 0
        auto acc = c[k];
        r1 = *acc;
        r0 = (r1 == 0);
        break;
      }
    }
  }
  static void snapshot(C& c, long& mask, long& sum) {
    for (auto it = c.begin(); it != c.end(); ++it) {
      int k = key_int(it->first);
      if (k < 0 || k >= NKEYS) fail("ORACLE", "final iteration yields unknown key %d", k);
      if (mask & (1 << k)) fail("ORACLE", "final iteration yields key %d twice", k);
      mask |= 1 << k;
      sum += (long)it->second * (k + 1);
    }
  }
  static int value_for(int k, int t) { return 10 + k * 10 + t; }
};

template <class A>
void setmap_test() {
  set_op_names(kOps, 10);
  const int T = (int)opt("T", 2), m = (int)opt("m", 2), nkeys = (int)opt("keys", 2);
  const long mask = opt("ops", A::is_map ? 0x27 : 0x17); // default: emplace, erase, contains + (map: get_or_emplace | set: emplace_or_get)
  const int prefill = (int)opt("prefill", -1) >= 0 ? (int)opt("prefill", 0) : choose(1 << nkeys);
  int alpha[16], na = 0;
  for (int o = 0; o < NOPS; o++)
    if ((mask & (1 << o)) && A::supports(o)) alpha[na++] = o;
  static int ops[MAXT][8], keys[MAXT][8];
  bool any_update = false;
  for (int t = 0; t < T; t++)
    for (int i = 0; i < m; i++) {
      ops[t][i] = alpha[choose(na)];
      keys[t][i] = choose(nkeys);
      if (ops[t][i] != O_CONTAINS && ops[t][i] != O_FIND) any_update = true;
    }
  if (!any_update) prune();
  for (int t = 0; t + 1 < T; t++) { // thread symmetry
    int cmp = 0;
    for (int i = 0; i < m && !cmp; i++) cmp = (ops[t][i] * 8 + keys[t][i]) - (ops[t + 1][i] * 8 + keys[t + 1][i]);
    if (cmp > 0) prune();
  }
  // relevance: with more than one thread, two threads must touch a common key
  if (T > 1) {
    int used[MAXT] = {0};
    for (int t = 0; t < T; t++)
      for (int i = 0; i < m; i++) used[t] |= 1 << keys[t][i];
    bool shared = false;
    for (int t = 0; t < T; t++)
      for (int u = t + 1; u < T; u++) shared |= (used[t] & used[u]) != 0;
    if (!shared) prune();
  }
  auto* c = new typename A::C();
  auto run_op = [c](int op, int k, int t) {
    long r0 = 0, r1 = 0;
    int v = A::value_for(k, t);
    op_begin(op, k, v);
    A::apply(*c, op, k, v, r0, r1);
    op_end(r0, r1);
  };
  for (int k = 0; k < nkeys; k++)
    if (prefill & (1 << k)) run_op(O_EMPLACE, k, 9);
  if (T == 1) {
    mark_nontrivial();
    for (int i = 0; i < m; i++) run_op(ops[0][i], keys[0][i], 1);
  } else {
    for (int t = 0; t < T; t++)
      spawn([=] {
        for (int i = 0; i < m; i++) run_op(ops[t][i], keys[t][i], t + 1);
      });
    join_all();
  }
  long smask = 0, ssum = 0;
  op_begin(O_SNAPSHOT);
  A::snapshot(*c, smask, ssum);
  op_end(smask, ssum);
  delete c;
  lin::require_linearizable(MapSpec{}, A::is_map ? "a sequential map" : "a sequential set");
}

namespace xp = xenium::policy;
template <class R, class... P>
using SET = xenium::harris_michael_list_based_set<int, xp::reclaimer<R>, P...>;
template <class R, std::size_t B, bool Memo, class H>
using MAP = xenium::harris_michael_hash_map<int, int, xp::reclaimer<R>, xp::buckets<B>, xp::memoize_hash<Memo>, xp::hash<H>>;
template <class R, std::size_t B, bool Memo, class H>
using MAPMK = xenium::harris_michael_hash_map<MKey, int, xp::reclaimer<R>, xp::buckets<B>, xp::memoize_hash<Memo>, xp::hash<HashOfMKey<H>>>;


// =================================================================================================
// C09: iterators stay valid and weakly consistent under updates
// =================================================================================================
const char* const kItOps[] = {"emplace", "erase", "yield", "erase_it", "begin", "end", "copy_it", "snapshot"};
enum { I_EMPLACE, I_ERASE, I_YIELD, I_ERASE_IT, I_BEGIN, I_END, I_COPY, I_SNAPSHOT };

template <class C>
struct KeyOf {
  template <class It>
  static int get(const It& it) {
    if constexpr (std::is_same_v<typename C::value_type, int>) return *it;
    else
      return it->first;
  }
  static bool emplace(C& c, int k) {
    if constexpr (std::is_same_v<typename C::value_type, int>) return c.emplace(k);
    else
      return c.emplace(k, k + 100);
  }
};

template <class C, bool Sorted>
void iter_test() {
  set_op_names(kItOps, 8);
  const int fixed = (int)opt("fixed", 0);
  const int U = fixed == 1 ? 3 : fixed == 2 ? 2 : (int)opt("updaters", 1), m = fixed == 1 ? 2 : fixed == 2 ? 1 : (int)opt("m", 2),
            nkeys = fixed ? 4 : (int)opt("keys", 3), L = (int)opt("steps", 4);
  const int prefill = fixed == 2 ? 0xf : fixed ? 0xd : (int)opt("prefill", -1) >= 0 ? (int)opt("prefill", 0) : 1 + choose((1 << nkeys) - 1);
  const bool allow_erase_it = opt("erase_it", 1) != 0;
  const bool seq_side_ops = U == 0;
  const bool nocopy = opt("nocopy", 0) != 0;
  static int uops[MAXT][8], ukeys[MAXT][8];
  for (int t = 0; t < U && !fixed; t++)
    for (int i = 0; i < m; i++) {
      uops[t][i] = choose(2); // emplace / erase
      ukeys[t][i] = choose(nkeys);
    }
  if (fixed == 2) {
    // adversarial family "erase(iterator) loses its splice and the list behind it shrinks during the re-scan" (seed C09d):
    // all four keys present (with hash HashThreeOne and two buckets: 0 -> 1 -> 2 in bucket 0, 3 in bucket 1), two updaters
    // erase one key each (all pairs enumerated): e.g. the traverser stands on 1, one updater erases 0 (the iterator's prev
    // pointer goes stale), erase(iterator) marks 1 and re-scans, the other updater erases 2 in the meantime - the
    // iterator must still move on to bucket 1 and yield 3
    for (int t = 0; t < 2; t++) {
      uops[t][0] = I_ERASE;
      ukeys[t][0] = choose(nkeys);
    }
    if (ukeys[0][0] >= ukeys[1][0]) prune();
  }
  if (fixed == 1) {
    // adversarial family "the list changes under a re-scan that starts behind the head" (seed C09c): elements {0,2,3};
    // updater 1 inserts 1 and erases 2 (the traverser's position), updater 2 erases 1 (the node a re-scan has walked
    // past), updater 3 erases 0 (the node the iterator's prev pointer points into).  Updaters that run to completion
    // hand over for free, so the whole scenario needs only 2-3 preemptions of the traverser.
    static const int fo[3][2] = {{I_EMPLACE, I_ERASE}, {I_ERASE, -1}, {I_ERASE, -1}};
    static const int fk[3][2] = {{1, 2}, {1, 0}, {0, 0}};
    for (int t = 0; t < 3; t++)
      for (int i = 0; i < 2; i++) uops[t][i] = fo[t][i], ukeys[t][i] = fk[t][i];
  }
  auto* c = new C();
  using K = KeyOf<C>;
  for (int k = 0; k < nkeys; k++)
    if (prefill & (1 << k)) K::emplace(*c, k);
  auto upd = [c](int op, int k) {
    op_begin(op, k);
    bool ok = op == I_EMPLACE ? K::emplace(*c, k) : c->erase(k);
    op_end(ok);
    return ok;
  };
  auto traverse = [=] {
    op_begin(I_BEGIN);
    auto it = c->begin();
    op_end();
    int steps = 0;
    bool reached_end = false;
    for (;;) {
      if (it == c->end()) {
        reached_end = true;
        break;
      }
      if (steps++ >= L) break;
      int k = K::get(it);
      op_begin(I_YIELD, k);
      if (k < 0 || k >= NKEYS) fail("ORACLE", "iterator yields unknown key %d", k);
      op_end();
      if (seq_side_ops) { // the same thread modifies the container through other handles
        int side = choose(1 + 2 * nkeys);
        if (side >= 1 && side <= nkeys) upd(I_ERASE, side - 1);
        else if (side > nkeys)
          upd(I_EMPLACE, side - nkeys - 1);
      }
      int act = choose(allow_erase_it ? 3 : 2);
      if (nocopy && act == 1) prune(); // --opt nocopy=1: the traverser only advances or erases
      if (act == 0) {
        LockFree lf("iterator operator++");
        ++it;
      } else if (act == 1) { // continue on a copy, the original is destroyed first
        op_begin(I_COPY, k);
        auto it2 = it;
        it = c->end();
        it = std::move(it2);
        if (it == c->end() || K::get(it) != k) fail("ORACLE", "copy of an iterator does not refer to the same element");
        op_end();
        LockFree lf("iterator operator++");
        ++it;
      } else {
        op_begin(I_ERASE_IT, k);
        it = c->erase(std::move(it));
        op_end(1);
        if (seq_side_ops && c->contains(k)) fail("ORACLE", "erase(iterator) did not remove the referenced element %d", k);
      }
    }
    op_begin(I_END, reached_end);
    it = c->end();
    op_end(reached_end);
  };
  if (U == 0) {
    mark_nontrivial();
    traverse();
  } else {
    spawn(traverse);
    for (int t = 0; t < U; t++)
      spawn([=] {
        for (int i = 0; i < m; i++)
          if (uops[t][i] >= 0) upd(uops[t][i], ukeys[t][i]);
      });
    join_all();
  }
  long final_mask = 0;
  op_begin(I_SNAPSHOT);
  for (auto it = c->begin(); it != c->end(); ++it) {
    int k = K::get(it);
    if (final_mask & (1 << k)) fail("ORACLE", "final iteration yields key %d twice", k);
    final_mask |= 1 << k;
  }
  op_end(final_mask);
  delete c;
  // ---------------- oracle over the recorded history
  int n = history_size();
  bool reached_end = false;
  uint64_t traversal_begin = 0;
  for (int i = 0; i < n; i++) {
    if (history_at(i).op == I_END) reached_end = history_at(i).r0 != 0;
    if (history_at(i).op == I_BEGIN) traversal_begin = history_at(i).inv;
  }
  for (int k = 0; k < nkeys; k++) {
    bool initial = (prefill >> k) & 1;
    int emp = 0, er = 0, erit = 0, yields = 0;
    for (int i = 0; i < n; i++) {
      const Event& e = history_at(i);
      if (e.a0 != k) continue;
      if (e.op == I_EMPLACE && e.r0) emp++;
      if (e.op == I_ERASE && e.r0) er++;
      if (e.op == I_ERASE_IT) erit++;
      if (e.op == I_YIELD) yields++;
    }
    // (d) an element that stays in the container for the whole traversal is yielded (exactly once)
    if (initial && er == 0 && erit == 0 && reached_end && yields != 1)
      fail("ITER", "key %d was in the container during the whole traversal but was yielded %d times", k, yields);
    // (b) every yielded element was in the container at some instant: it was there initially or inserted by then
    // (c) no key twice unless re-inserted in between
    const Event* prev_yield = nullptr;
    for (int i = 0; i < n; i++) {
      const Event& e = history_at(i);
      if (e.op != I_YIELD || e.a0 != k) continue;
      bool inserted_before = initial;
      for (int j = 0; j < n && !inserted_before; j++) {
        const Event& u = history_at(j);
        if (u.op == I_EMPLACE && u.a0 == k && u.r0 && u.inv < e.inv) inserted_before = true;
      }
      if (!inserted_before) fail("ITER", "iterator yielded key %d, which was never in the container up to that point", k);
      if (prev_yield) {
        bool reinserted = false;
        for (int j = 0; j < n; j++) {
          const Event& u = history_at(j);
          // (the first of the two yields may refer to the old, already removed node which the iterator still
          //  protects - so the re-insertion only has to fall into the traversal, before the second yield)
          if (u.op == I_EMPLACE && u.a0 == k && u.r0 && u.inv < e.inv && u.res > traversal_begin) reinserted = true;
        }
        if (!reinserted) fail("ITER", "iterator yielded key %d twice although it was not re-inserted during the traversal", k);
      }
      prev_yield = &e;
    }
    // (e) conservation: erase(iterator) removes exactly the referenced element
    int lo = (initial ? 1 : 0) + emp - er - erit, hi = (initial ? 1 : 0) + emp - er;
    int fin = (final_mask >> k) & 1;
    if (fin < (lo < 0 ? 0 : lo) || fin > (hi > 1 ? 1 : hi))
      fail("ITER", "key %d: final presence %d is inconsistent with %d initial + %d inserted - %d erased - %d erased through the iterator", k, fin,
           initial ? 1 : 0, emp, er, erit);
  }
  if (Sorted) { // list based set: traversal order is the key order; going backwards needs a re-insert
    const Event* prev = nullptr;
    for (int i = 0; i < n; i++) {
      const Event& e = history_at(i);
      if (e.op != I_YIELD) continue;
      if (prev && e.a0 <= prev->a0) {
        bool reinserted = false;
        for (int j = 0; j < n; j++) {
          const Event& u = history_at(j);
          if (u.op == I_EMPLACE && u.a0 == e.a0 && u.r0 && u.inv < e.inv && u.res > traversal_begin) reinserted = true;
        }
        if (!reinserted && e.a0 != prev->a0) fail("ITER", "sorted traversal went backwards from key %ld to key %ld", prev->a0, e.a0);
      }
      prev = &e;
    }
  }
}

// =================================================================================================
// Sequential sweep (C08, C09): containers with 1 / 5 / 8 / 16 buckets and up to `maxn` keys - long lists, many empty
// buckets between populated ones, several keys per bucket in hash order and key order - filled in a scrambled order,
// thinned out in one of five patterns by erase(key) / erase(find()) / an erasing traversal, refilled, and finally
// emptied through it = erase(it).  After every phase contains, find and a full traversal (each element exactly once,
// with its value; the set in key order) must agree with a reference.
template <class C, bool IsMap>
void hm_sweep() {
  const int maxn = (int)opt("maxn", 16);
  const int n = 1 + choose(maxn);
  const int stride = 1 + choose(3);  // keys 0, s, 2s, ... (s = 3: sparse in the buckets)
  const int how = choose(5);         // which keys go: 0 none, 1 even positions, 2 first half, 3 all but the last, 4 every third
  const int via = choose(4);         // 0 erase(key), 1 find + erase(iterator), 2 erasing traversal, 3 find, erase the predecessor by key, erase(stale iterator)
  const int refill = choose(2);
  constexpr int MAXK = 64;
  C* c = new C();
  int ref[MAXK * 3];
  for (int& r : ref) r = -1;
  auto keyv = [](auto& it) {
    if constexpr (IsMap) return key_int(it->first);
    else
      return *it;
  };
  auto valv = [](auto& it) {
    if constexpr (IsMap) return it->second;
    else
      return *it;
  };
  auto insert = [&](int k, int v) {
    if constexpr (IsMap) {
      switch (k % 4) {
        case 0: return c->emplace(k, v);
        case 1: return c->emplace_or_get(k, v).second;
        case 2: return c->get_or_emplace(k, v).second;
        default: return c->get_or_emplace_lazy(k, [v] { return v; }).second;
      }
    } else
      return (k & 1) ? c->emplace(k) : c->emplace_or_get(k).second;
  };
  auto check_all = [&](const char* phase) {
    int count = 0;
    for (int k = 0; k < n * stride + 2; k++) {
      progress(); // every iteration asks about another key: not a busy-wait loop, even if the (empty) container answers with the same loads
      bool present = ref[k] >= 0;
      if (c->contains(k) != present) fail("ORACLE", "%s: contains(%d) = %d, reference says %d (n %d stride %d)", phase, k, (int)!present, (int)present, n, stride);
      {  // the iterator goes out of scope before the insertion below: with static_strategy<3> an iterator (two slots) and an insertion (three) do not fit
        auto it = c->find(k);
        bool found = it != c->end();
        if (found != present || (found && (keyv(it) != k || valv(it) != ref[k]))) fail("ORACLE", "%s: find(%d) disagrees with the reference value %d", phase, k, ref[k]);
      }
      count += present;
      if (present && insert(k, IsMap ? 7 : k)) fail("ORACLE", "%s: insertion of the present key %d succeeded", phase, k);
    }
    bool seen[MAXK * 3] = {};
    int yielded = 0, last = -1;
    for (auto it = c->begin(); it != c->end(); ++it) {
      int k = keyv(it);
      if (k < 0 || k >= MAXK * 3 || ref[k] < 0) fail("ORACLE", "%s: traversal yields key %d, which is not in the container", phase, k);
      if (seen[k]) fail("ORACLE", "%s: traversal yields key %d twice", phase, k);
      if (valv(it) != ref[k]) fail("ORACLE", "%s: traversal yields value %d for key %d, expected %d", phase, valv(it), k, ref[k]);
      if (!IsMap && k <= last) fail("ORACLE", "%s: set traversal is not in key order (%d after %d)", phase, k, last);
      last = k;
      seen[k] = true;
      yielded++;
    }
    if (yielded != count) fail("ORACLE", "%s: traversal yields %d elements, the container holds %d (n %d stride %d)", phase, yielded, count, n, stride);
  };
  // fill in a scrambled order (position i -> (i * 7 + 3) mod n is a permutation for n not divisible by 7, else use 5)
  const int mul = n % 7 ? 7 : 5;
  for (int i = 0; i < n; i++) {
    int pos = (i * mul + 3) % n;
    int k = pos * stride, v = IsMap ? 100 + k : k;
    if (!insert(k, v)) fail("ORACLE", "insertion of the absent key %d failed", k);
    ref[k] = v;
    if (insert(k, IsMap ? 7 : k)) fail("ORACLE", "second insertion of key %d succeeded", k);
  }
  check_all("after the fill");
  auto goes = [&](int k) {
    int pos = k / stride;
    switch (how) {
      case 1: return (pos & 1) == 0;
      case 2: return pos < n / 2;
      case 3: return pos != n - 1;
      case 4: return pos % 3 == 0;
      default: return false;
    }
  };
  if (via == 2) {
    for (auto it = c->begin(); it != c->end();) {
      int k = keyv(it);
      if (k < 0 || k >= MAXK * 3 || ref[k] < 0) fail("ORACLE", "erasing traversal yields key %d, which is not in the container", k);
      if (goes(k)) {
        it = c->erase(std::move(it));
        ref[k] = -1;
      } else
        ++it;
    }
  } else {
    for (int pos = n - 1; pos >= 0; pos--) {
      int k = pos * stride;
      if (!goes(k) || ref[k] < 0) continue;
      if (via == 0) {
        if (!c->erase(k)) fail("ORACLE", "erase of the present key %d failed", k);
        if (c->erase(k)) fail("ORACLE", "second erase of key %d succeeded", k);
      } else {
        // the iteration order (bucket by bucket, inside a bucket in hash / key order) does not depend on the history:
        // erase(iterator) must return an iterator to the element that followed the erased one in this order - or end()
        // exactly if there is none (seeds C09d, C08e: end() although later buckets hold elements)
        int order[MAXK * 3], no = 0, at = -1;
        for (auto it = c->begin(); it != c->end(); ++it) {
          if (keyv(it) == k) at = no;
          order[no++] = keyv(it);
        }
        if (at < 0) fail("ORACLE", "traversal does not yield the present key %d", k);
        auto it = c->find(k);
        if (it == c->end()) fail("ORACLE", "find of the present key %d failed", k);
        if (via == 3 && at > 0) {
          // the element in front of it goes first, through another handle: the iterator's predecessor is stale now and
          // erase(iterator) has to re-scan
          const int p = order[at - 1];
          if (!c->erase(p)) fail("ORACLE", "erase of the present key %d failed", p);
          ref[p] = -1;
        }
        auto nx = c->erase(std::move(it));
        const int want = at + 1 < no ? order[at + 1] : -1;
        if (nx != c->end()) {
          int k2 = keyv(nx);
          if (k2 != want) fail("ORACLE", "erase(iterator) of key %d returned an iterator to key %d, the following element is %d", k, k2, want);
        } else if (want >= 0)
          fail("ORACLE", "erase(iterator) of key %d returned end() although key %d follows it", k, want);
      }
      ref[k] = -1;
    }
  }
  check_all("after the removals");
  if (refill) {
    for (int pos = 0; pos < n; pos++) {
      int k = pos * stride;
      if (ref[k] >= 0) continue;
      int v = IsMap ? 300 + k : k;
      if (!insert(k, v)) fail("ORACLE", "re-insertion of the absent key %d failed", k);
      ref[k] = v;
    }
    check_all("after the refill");
  }
  int removed = 0, expected = 0;
  for (int r : ref) expected += r >= 0;
  for (auto it = c->begin(); it != c->end();) {
    int k = keyv(it);
    if (k < 0 || k >= MAXK * 3 || ref[k] < 0) fail("ORACLE", "final traversal yields key %d, which is not in the container", k);
    ref[k] = -1;
    it = c->erase(std::move(it));
    removed++;
  }
  if (removed != expected) fail("ORACLE", "the final erasing traversal removed %d elements, the container held %d", removed, expected);
  check_all("after the final traversal");
  if (!insert(stride, IsMap ? 5 : stride)) fail("ORACLE", "insertion into the emptied container failed");
  ref[stride] = IsMap ? 5 : stride;
  check_all("at the end");
  mark_nontrivial();
  delete c;
}
#define REGSW(name, C, IsMap) XMC_TEST_FN("sweep_" name, (&hm_sweep<C, IsMap>), "sequential sweep, " name)
#define CM_ ,
REGSW("set_hp", SET<rec::HPs<6>>, false);
REGSW("set_ebr", SET<rec::EBR>, false);
REGSW("set_lfrc", SET<rec::LFRC>, false);
REGSW("map_b1_hp", MAP<rec::HPs<6> CM_ 1 CM_ false CM_ HashIdentity>, true);
REGSW("map_b5_memo_hp", MAP<rec::HPs<6> CM_ 5 CM_ true CM_ HashIdentity>, true);
REGSW("map_b8_hp", MAP<rec::HPs<6> CM_ 8 CM_ false CM_ HashIdentity>, true);
REGSW("map_b8_memo_scr_ebr", MAP<rec::EBR CM_ 8 CM_ true CM_ HashScramble>, true);
REGSW("map_b16_const_hp", MAP<rec::HPs<6> CM_ 16 CM_ false CM_ HashConst>, true);
REGSW("map_b16_lfrc", MAP<rec::LFRC CM_ 16 CM_ false CM_ HashIdentity>, true);
REGSW("map_b64_stamp", MAP<rec::STAMP CM_ 64 CM_ true CM_ HashIdentity>, true);
REGSW("map_mk_b8_hp", MAPMK<rec::HPs<6> CM_ 8 CM_ false CM_ HashIdentity>, true);

#define REGSET(name, R) XMC_TEST_FN("set_" name, (&setmap_test<SetAdapter<SET<R>>>), "list based set, " name)
REGSET("hp", rec::HPs<3>);
REGSET("hpd", rec::HPd<1>);
REGSET("he", rec::HEs<3>);
REGSET("hed", rec::HEd<1>);
REGSET("qsbr", rec::QSBR);
REGSET("ebr", rec::EBR);
REGSET("nebr", rec::NEBR);
REGSET("debra", rec::DEBRA);
REGSET("gebr_lazy", rec::GEBR_LAZY);
REGSET("stamp", rec::STAMP);
REGSET("lfrc", rec::LFRC);
XMC_TEST_FN("set_greater_hp", (&setmap_test<SetAdapter<SET<rec::HPs<3>, xp::compare<std::greater<int>>>>>), "list based set with std::greater, HP");

#define REGMAP(name, R, B, Memo, H) XMC_TEST_FN("map_" name, (&setmap_test<MapAdapter<MAP<R, B, Memo, H>>>), "hash map, " name)
#define REGMAPMK(name, R, B, Memo, H) XMC_TEST_FN("map_mk_" name, (&setmap_test<MapAdapter<MAPMK<R, B, Memo, H>>>), "hash map with a move-destructive key type, " name)
REGMAPMK("b1_hp", rec::HPs<3>, 1, false, HashIdentity);
REGMAPMK("b1_memo_scr_ebr", rec::EBR, 1, true, HashScramble);
REGMAPMK("b2_lfrc", rec::LFRC, 2, false, HashIdentity);
REGMAP("b1_hp", rec::HPs<3>, 1, false, HashIdentity);
REGMAP("b1_memo_hp", rec::HPs<3>, 1, true, HashIdentity);
REGMAP("b1_memo_scr_hp", rec::HPs<3>, 1, true, HashScramble);
REGMAP("b1_const_hp", rec::HPs<3>, 1, false, HashConst);
REGMAP("b2_hp", rec::HPs<3>, 2, false, HashIdentity);
REGMAP("b2_memo_scr_hp", rec::HPs<3>, 2, true, HashScramble);
REGMAP("b1_ebr", rec::EBR, 1, false, HashIdentity);
REGMAP("b1_memo_scr_ebr", rec::EBR, 1, true, HashScramble);
REGMAP("b2_ebr", rec::EBR, 2, false, HashIdentity);
REGMAP("b1_he", rec::HEs<3>, 1, false, HashIdentity);
REGMAP("b1_qsbr", rec::QSBR, 1, false, HashIdentity);
REGMAP("b1_nebr", rec::NEBR, 1, false, HashIdentity);
REGMAP("b1_debra", rec::DEBRA, 1, false, HashIdentity);
REGMAP("b1_stamp", rec::STAMP, 1, false, HashIdentity);
REGMAP("b1_lfrc", rec::LFRC, 1, false, HashIdentity);
REGMAP("b1_memo_scr_lfrc", rec::LFRC, 1, true, HashScramble);

#define REGITSET(name, R) XMC_TEST_FN("iset_" name, (&iter_test<SET<R>, true>), "set iterator, " name)
REGITSET("hp", rec::HPs<8>);
REGITSET("hpd", rec::HPd<1>);
REGITSET("he", rec::HEs<8>);
REGITSET("qsbr", rec::QSBR);
REGITSET("ebr", rec::EBR);
REGITSET("nebr", rec::NEBR);
REGITSET("debra", rec::DEBRA);
REGITSET("stamp", rec::STAMP);
REGITSET("lfrc", rec::LFRC);
#define REGITMAP(name, R, B, Memo, H) XMC_TEST_FN("imap_" name, (&iter_test<MAP<R, B, Memo, H>, false>), "map iterator, " name)
REGITMAP("b2_31_hp", rec::HPs<8>, 2, false, HashThreeOne);
REGITMAP("b2_31_memo_ebr", rec::EBR, 2, true, HashThreeOne);
REGITMAP("b1_hp", rec::HPs<8>, 1, false, HashIdentity);
REGITMAP("b1_memo_hp", rec::HPs<8>, 1, true, HashIdentity);
REGITMAP("b1_memo_scr_hp", rec::HPs<8>, 1, true, HashScramble);
REGITMAP("b1_scr_hp", rec::HPs<8>, 1, false, HashScramble);
REGITMAP("b2_memo_scr_hp", rec::HPs<8>, 2, true, HashScramble);
REGITMAP("b2_hp", rec::HPs<8>, 2, false, HashIdentity);
REGITMAP("b1_ebr", rec::EBR, 1, false, HashIdentity);
REGITMAP("b1_memo_scr_ebr", rec::EBR, 1, true, HashScramble);
REGITMAP("b1_he", rec::HEs<8>, 1, false, HashIdentity);
REGITMAP("b1_stamp", rec::STAMP, 1, false, HashIdentity);
REGITMAP("b1_lfrc", rec::LFRC, 1, false, HashIdentity);
} // namespace
