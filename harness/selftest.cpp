// Engine self-tests: tiny programs with known outcomes (the explorer must find / must not find a violation).
#include "xmc/xmc.h"
#include <atomic>
#include <mutex>

using namespace xmc;

// lost update: needs exactly one preemption
XMC_TEST(self_lost_update, "two threads do load;store increments - lost update needs 1 preemption") {
  auto* x = new std::atomic<int>(0);
  for (int t = 0; t < 2; t++) spawn([x] {
    op_begin(0);
    int v = x->load(std::memory_order_relaxed);
    x->store(v + 1, std::memory_order_relaxed);
    op_end(v);
  });
  join_all();
  if (x->load() != 2) fail("ORACLE", "lost update: x=%d", x->load());
  delete x;
}

XMC_TEST(self_fetch_add_ok, "two threads fetch_add - never violates") {
  auto* x = new std::atomic<int>(0);
  for (int t = 0; t < 2; t++) spawn([x] {
    op_begin(0);
    int v = x->fetch_add(1, std::memory_order_relaxed);
    op_end(v);
  });
  join_all();
  if (x->load() != 2) fail("ORACLE", "x=%d", x->load());
  delete x;
}

// message passing with a relaxed flag: plain payload race (visible in sc mode through hb)
XMC_TEST(self_mp_relaxed_race, "message passing with relaxed flag - data race on payload") {
  struct S { int data; std::atomic<int> flag; };
  auto* s = new S{0, {0}};
  spawn([s] { s->data = 42; s->flag.store(1, std::memory_order_relaxed); });
  spawn([s] { if (s->flag.load(std::memory_order_acquire) == 1) { if (s->data != 42) fail("ORACLE", "stale payload"); } });
  join_all();
  delete s;
}
// an access AFTER a release is not ordered before the acquirer (a guard released too early: seed C13c, missed by the
// first version of the race detector, whose epochs changed only in front of a visible operation)
XMC_TEST(self_access_after_release, "plain access after the release store races with the acquirer's write") {
  struct S { int data; std::atomic<int> flag; };
  auto* s = new S{0, {0}};
  spawn([s] { s->flag.store(1, std::memory_order_release); if (s->data == 7) note("saw the writer"); });
  spawn([s] { if (s->flag.load(std::memory_order_acquire) == 1) s->data = 7; });
  join_all();
  delete s;
}
XMC_TEST(self_access_after_release_rmw, "plain access after a release RMW / release fence races with the acquirer's write") {
  struct S { int data; int data2; std::atomic<int> flag; std::atomic<int> flag2; };
  auto* s = new S{0, 0, {0}, {0}};
  spawn([s] {
    s->flag.fetch_add(1, std::memory_order_release);
    if (s->data == 7) note("saw the writer");
  });
  spawn([s] { if (s->flag.load(std::memory_order_acquire) == 1) s->data = 7; });
  join_all();
  delete s;
}
XMC_TEST(self_mp_release_ok, "message passing with release/acquire - no race") {
  struct S { int data; std::atomic<int> flag; };
  auto* s = new S{0, {0}};
  spawn([s] { s->data = 42; s->flag.store(1, std::memory_order_release); });
  spawn([s] { if (s->flag.load(std::memory_order_acquire) == 1) { if (s->data != 42) fail("ORACLE", "stale payload"); } });
  join_all();
  delete s;
}
// fence based message passing
XMC_TEST(self_mp_fence_ok, "message passing with fences - no race") {
  struct S { int data; std::atomic<int> flag; };
  auto* s = new S{0, {0}};
  spawn([s] { s->data = 42; std::atomic_thread_fence(std::memory_order_release); s->flag.store(1, std::memory_order_relaxed); });
  spawn([s] { if (s->flag.load(std::memory_order_relaxed) == 1) { std::atomic_thread_fence(std::memory_order_acquire); if (s->data != 42) fail("ORACLE", "stale payload"); } });
  join_all();
  delete s;
}

// store buffering: both read 0 only under wmm (relaxed) - with seq_cst never
XMC_TEST(self_sb_relaxed, "store buffering, relaxed: r1=r2=0 reachable only in wmm mode") {
  auto* x = new std::atomic<int>(0);
  auto* y = new std::atomic<int>(0);
  int* r = new int[2]{-1, -1};
  spawn([=] { x->store(1, std::memory_order_relaxed); r[0] = y->load(std::memory_order_relaxed); });
  spawn([=] { y->store(1, std::memory_order_relaxed); r[1] = x->load(std::memory_order_relaxed); });
  join_all();
  if (r[0] == 0 && r[1] == 0) fail("ORACLE", "store buffering outcome r1=r2=0");
}
XMC_TEST(self_sb_sc, "store buffering, seq_cst: r1=r2=0 never") {
  auto* x = new std::atomic<int>(0);
  auto* y = new std::atomic<int>(0);
  int* r = new int[2]{-1, -1};
  spawn([=] { x->store(1, std::memory_order_seq_cst); r[0] = y->load(std::memory_order_seq_cst); });
  spawn([=] { y->store(1, std::memory_order_seq_cst); r[1] = x->load(std::memory_order_seq_cst); });
  join_all();
  if (r[0] == 0 && r[1] == 0) fail("ORACLE", "store buffering outcome r1=r2=0");
}
XMC_TEST(self_sb_mixed, "store buffering with a release store on one side (seq_cst elsewhere): r1=r2=0 is C++11-legal, reachable only in wmm") {
  auto* x = new std::atomic<int>(0);
  auto* y = new std::atomic<int>(0);
  int* r = new int[2]{-1, -1};
  spawn([=] { x->store(1, std::memory_order_release); r[0] = y->load(std::memory_order_seq_cst); });
  spawn([=] { y->fetch_add(1, std::memory_order_seq_cst); r[1] = x->load(std::memory_order_seq_cst); });
  join_all();
  if (r[0] == 0 && r[1] == 0) fail("ORACLE", "store buffering outcome r1=r2=0");
}
XMC_TEST(self_sc_store_fence, "seq_cst store, then seq_cst fence + relaxed load on the other side: the load sees the store (29.3p6)") {
  auto* x = new std::atomic<int>(0);
  auto* y = new std::atomic<int>(0);
  int* r = new int[2]{-1, -1};
  spawn([=] { x->store(1, std::memory_order_seq_cst); r[0] = y->load(std::memory_order_seq_cst); });
  spawn([=] { y->store(1, std::memory_order_seq_cst); std::atomic_thread_fence(std::memory_order_seq_cst); r[1] = x->load(std::memory_order_relaxed); });
  join_all();
  if (r[0] == 0 && r[1] == 0) fail("ORACLE", "outcome r1=r2=0 is forbidden");
}
XMC_TEST(self_sb_fence, "store buffering with seq_cst fences: r1=r2=0 never") {
  auto* x = new std::atomic<int>(0);
  auto* y = new std::atomic<int>(0);
  int* r = new int[2]{-1, -1};
  spawn([=] { x->store(1, std::memory_order_relaxed); std::atomic_thread_fence(std::memory_order_seq_cst); r[0] = y->load(std::memory_order_relaxed); });
  spawn([=] { y->store(1, std::memory_order_relaxed); std::atomic_thread_fence(std::memory_order_seq_cst); r[1] = x->load(std::memory_order_relaxed); });
  join_all();
  if (r[0] == 0 && r[1] == 0) fail("ORACLE", "store buffering outcome r1=r2=0");
}
// relaxed message passing on atomics: stale payload only in wmm
XMC_TEST(self_mp_atomic_relaxed, "MP on atomics, relaxed: flag=1,data=0 reachable only in wmm") {
  auto* d = new std::atomic<int>(0);
  auto* f = new std::atomic<int>(0);
  spawn([=] { d->store(1, std::memory_order_relaxed); f->store(1, std::memory_order_relaxed); });
  spawn([=] { if (f->load(std::memory_order_relaxed) == 1 && d->load(std::memory_order_relaxed) == 0) fail("ORACLE", "MP violation"); });
  join_all();
}
XMC_TEST(self_mp_atomic_relacq, "MP on atomics, rel/acq: never stale") {
  auto* d = new std::atomic<int>(0);
  auto* f = new std::atomic<int>(0);
  spawn([=] { d->store(1, std::memory_order_relaxed); f->store(1, std::memory_order_release); });
  spawn([=] { if (f->load(std::memory_order_acquire) == 1 && d->load(std::memory_order_relaxed) == 0) fail("ORACLE", "MP violation"); });
  join_all();
}

XMC_TEST(self_uaf, "reader may dereference after free - needs 1 preemption") {
  struct N { int v; };
  auto* p = new std::atomic<N*>(new N{7});
  spawn([p] { N* n = p->load(std::memory_order_acquire); if (n) { volatile int v = n->v; (void)v; } });
  spawn([p] { N* n = p->exchange(nullptr, std::memory_order_acq_rel); delete n; });
  join_all();
}

XMC_TEST(self_spinlock_ok, "test-and-set spin lock protects a plain counter") {
  struct S { std::atomic<int> l; int c; };
  auto* s = new S{{0}, 0};
  for (int t = 0; t < 2; t++) spawn([s] {
    op_begin(0, 0, 0, false);
    while (s->l.exchange(1, std::memory_order_acquire)) {}
    s->c++;
    s->l.store(0, std::memory_order_release);
    op_end();
  });
  join_all();
  if (s->c != 2) fail("ORACLE", "c=%d", s->c);
}
XMC_TEST(self_spin_deadlock, "lock never released: must be reported as livelock, not hang") {
  auto* l = new std::atomic<int>(1);
  spawn([l] { op_begin(0, 0, 0, false); while (l->load(std::memory_order_acquire)) {} op_end(); });
  join_all();
}
XMC_TEST(self_mutex_ok, "std::mutex protects a plain counter") {
  struct S { std::mutex m; int c; };
  auto* s = new S;
  s->c = 0;
  for (int t = 0; t < 2; t++) spawn([s] { std::lock_guard<std::mutex> g(s->m); s->c++; });
  join_all();
  if (s->c != 2) fail("ORACLE", "c=%d", s->c);
}
// spin detection must not mistake repeated calls of an outlined accessor for a busy-wait loop: at c=0 the
// three reads below are never separated by the other thread (plant=1: reads inside a real loop are)
[[gnu::noinline]] static int self_peek(std::atomic<int>* a) { return a->load(std::memory_order_relaxed); }
XMC_TEST(self_accessor_calls, "three calls of an outlined accessor are not a spin loop (c=0: no switch between them)") {
  auto* a = new std::atomic<int>(0);
  spawn([a] {
    int r1 = self_peek(a), r2 = self_peek(a), r3 = self_peek(a);
    if (r1 != r3 || r1 != r2) fail("ORACLE", "reads separated without a preemption: %d %d %d", r1, r2, r3);
  });
  spawn([a] { a->store(1, std::memory_order_relaxed); });
  join_all();
}
// compare_exchange_weak may fail spuriously (explored only with --s > 0): a single-shot weak CAS whose failure is
// taken as "somebody else has done it" is wrong even single-threaded
XMC_TEST(self_weak_cas_single_shot, "single-shot compare_exchange_weak: failure does not imply interference (needs --s 1)") {
  auto* x = new std::atomic<int>(0);
  spawn([x] {
    int e = 0;
    if (!x->compare_exchange_weak(e, 1, std::memory_order_acq_rel, std::memory_order_acquire)) {
      if (x->load(std::memory_order_acquire) != 1) fail("ORACLE", "weak CAS failed but nobody else has set the value");
    }
  });
  join_all();
}
XMC_TEST(self_choose, "DATA choices are enumerated: 3x3 grid, violation only at (2,1)") {
  int a = choose(3), b = choose(3);
  if (a == 2 && b == 1 && opt("plant", 0)) fail("ORACLE", "found planted (2,1)");
}
