// C06: kirsch_kfifo_queue / kirsch_bounded_kfifo_queue conserve elements with at most k-1 overtaking.
// utils::random() is a recorded RAND choice (hook XENIUM_VERIF): the start index inside a segment.
#include "harness/common.h"

#include <xenium/kirsch_bounded_kfifo_queue.hpp>
#include <xenium/kirsch_kfifo_queue.hpp>

#include <stdexcept>

using namespace xmc;

namespace {
const char* const kOps[] = {"push", "try_pop"};

// k-relaxed FIFO exactly as C06 words it
struct KFifoSpec {
  uint8_t q[12];
  int n = 0;
  int k = 1;
  int reject_min = -1; // bounded: a push may be rejected only if at least this many values are stored (-1: never)
  int cap = 1 << 20;
  // relaxed variant used only to *classify* a failure (known finding F-C06-4): a push that was rejected while it
  // overlapped other operations may have tentatively occupied a slot of the tail segment and withdrawn it after the
  // tail had moved on; the slot stays empty between head and tail (a hole) and the ring reports "full" one value early
  bool count_holes = false;
  int holes = 0;
  bool apply(const Event& e) {
    int overl = (int)e.res_vc[MAXT - 1];
    if (e.op == 0) {
      if (e.r0) {
        if (n >= cap || n >= 12) return false;
        q[n++] = uint8_t(e.a0);
        return true;
      }
      // a value that a concurrent push has tentatively placed in a slot (and may withdraw again) is "stored"
      // at that instant in the sense of C06: overlapping operations count towards the occupancy
      bool ok = reject_min >= 0 && n + overl + holes >= reject_min && n + overl + holes > 0;
      if (ok && count_holes && overl > 0) holes++;
      return ok;
    }
    if (e.r0) { // returns one of the k oldest values present
      int lim = n < k ? n : k;
      for (int i = 0; i < lim; i++)
        if (q[i] == e.r1) {
          for (int j = i + 1; j < n; j++) q[j - 1] = q[j];
          n--;
          return true;
        }
      return false;
    }
    // 'empty': fewer than k values stored at some instant; exactly when empty if nothing runs concurrently
    if (n == 0) return true;
    return n < k && overl > 0;
  }
  uint64_t hash() const {
    uint64_t h = (uint64_t)holes * 16 + n;
    for (int i = 0; i < n; i++) h = (h << 5) | q[i];
    return h;
  }
};

inline int* enc(int v) { return reinterpret_cast<int*>(uintptr_t(v) << 4); }
inline int dec(int* p) { return int(reinterpret_cast<uintptr_t>(p) >> 4); }

template <class R>
struct Unbounded {
  using Q = xenium::kirsch_kfifo_queue<int*, xenium::policy::reclaimer<R>>;
  static Q* make(int k, int) { return new Q(k); }
  static bool push(Q& q, int v) {
    q.push(enc(v));
    return true;
  }
  static void spec(KFifoSpec& s, int k, int) { s.k = k; }
};
struct Bounded {
  using Q = xenium::kirsch_bounded_kfifo_queue<int*>;
  static Q* make(int k, int segs) { return new Q(k, segs); }
  static bool push(Q& q, int v) { return q.try_push(enc(v)); }
  static void spec(KFifoSpec& s, int k, int segs) {
    s.k = k;
    s.reject_min = (segs - 1) * k + 1;
    s.cap = segs * k;
  }
};

template <class A>
void kfifo_test() {
  set_op_names(kOps, 2);
  const int T = (int)opt("T", 2), m = (int)opt("m", 2), k = (int)opt("k", 2), segs = (int)opt("segs", 2);
  set_rand_domain(k); // utils::random() % k: every start index is a recorded choice
  const int prefill = (int)opt("prefill", -1) >= 0 ? (int)opt("prefill", 0) : choose(3);
  hx::Program p = hx::choose_program(T, m, 2, T > 1);
  int pops = 0;
  for (int t = 0; t < T; t++)
    for (int i = 0; i < m; i++) pops += p.op[t][i];
  if (pops == 0 && T > 1) prune();
  typename A::Q* q = A::make(k, segs);
  int next = 1;
  // the popping entry point: try_pop(value_type&) or pop() -> std::optional; --opt api=0 / 1 fixes one of them, the
  // default (2) alternates with the parity of the operation's sequence number, so that both are met in every run
  const int api = (int)opt("api", 2);
  auto apply = [q, api](int op, int val) {
    if (op == 0) {
      op_begin(0, val);
      bool ok = A::push(*q, val);
      op_end(ok);
    } else if (api == 1 || (api == 2 && (val & 1))) {
      op_begin(1);
      auto r = q->pop();
      bool ok = r.has_value();
      op_end(ok, ok ? dec(*r) : 0);
    } else {
      int* v = nullptr;
      op_begin(1);
      bool ok = q->try_pop(v);
      op_end(ok, ok ? dec(v) : 0);
    }
  };
  for (int i = 0; i < prefill; i++) apply(0, next++);
  if (T == 1) {
    mark_nontrivial(); // sequential conformance run: every distinct operation sequence counts
    for (int i = 0; i < m; i++) apply(p.op[0][i], next++);
  } else {
    for (int t = 0; t < T; t++) {
      int base = next + t * m;
      spawn([p, t, m, base, apply] {
        for (int i = 0; i < m; i++) apply(p.op[t][i], base + i);
      });
    }
    join_all();
  }
  for (int i = 0; i < 14; i++) { // final drain: nothing runs concurrently, so 'empty' must mean empty
    int before = history_size();
    apply(1, i);
    if (history_at(before).r0 == 0) break;
  }
  delete q;
  KFifoSpec s;
  A::spec(s, k, segs);
  {
    lin::Checker<KFifoSpec> strict;
    if (strict.check(s)) return;
  }
  KFifoSpec relaxed = s;
  relaxed.count_holes = true;
  lin::Checker<KFifoSpec> c2;
  if (s.reject_min >= 0 && c2.check(relaxed))
    fail("LIN_HOLE", "try_push rejected with fewer than (segments-1)*k+1 = %d values stored: explained only by slots that earlier, concurrently rejected pushes "
         "withdrew after the tail had moved on (holes between head and tail)", s.reject_min);
  fail("LIN", "history is not linearizable w.r.t. a k-relaxed FIFO queue");
}

// representation limits: one thread pushes and pops `laps` times round a ring of k*segs slots (k = 1) so that
// head/tail indexes run through every value up to k*segs; conformance is checked on the fly.
void kb_boundary() {
  set_op_names(kOps, 2);
  const long k = opt("k", 1), segs = opt("segs", 65537), ops = opt("ops", 70000), fill = opt("fill", 1);
  set_rand_domain(1);
  auto* q = new xenium::kirsch_bounded_kfifo_queue<int*>(k, segs);
  long next = 1, expect_pop = 1;
  long stored = 0;
  for (long i = 0; i < ops; i++) {
    if (history_size() > 3000) history_reset();
    while (stored < fill) {
      if (history_size() > 3000) history_reset();
      op_begin(0, next);
      bool ok = q->try_push(enc((int)(next & 0xffffff)));
      op_end(ok);
      // C06: a push may be rejected only if at least (segments-1)*k+1 values are stored (the first version demanded
      // all k*segments slots - a false alarm of the thorough tier for k = 2)
      if (!ok && stored >= (segs - 1) * k + 1) break;
      if (!ok) fail("ORACLE", "try_push rejected although only %ld values are stored, fewer than (segments-1)*k+1 = %ld (push #%ld)", stored, (segs - 1) * k + 1, next);
      next++;
      stored++;
    }
    int* v = nullptr;
    op_begin(1);
    bool ok = q->try_pop(v);
    op_end(ok, ok ? dec(v) : 0);
    if (!ok) fail("ORACLE", "try_pop reports empty although %ld values are stored (after %ld pushes)", stored, next - 1);
    if (k == 1 && dec(v) != (int)(expect_pop & 0xffffff)) fail("ORACLE", "pop #%ld returned %d, expected %ld", expect_pop, dec(v), expect_pop);
    expect_pop++;
    stored--;
  }
  mark_nontrivial();
  delete q;
}

// extreme constructor arguments: C06 holds "for every k >= 1 and every segment count the constructor accepts" - a pair
// whose product does not fit the index representation (or does not even fit 64 bits) must be refused with
// std::invalid_argument; if the constructor accepts a pair, pushes must be accepted up to (segments-1)*k+1 stored values
// (seed C06d: the range test computed on a product that has wrapped around)
void kb_ctor() {
  set_op_names(kOps, 2);
  struct Cfg { uint64_t k, segs; };
  static const Cfg cfgs[] = {
    {2, (uint64_t(1) << 63) + 1}, {4, (uint64_t(1) << 62) + 1}, {3, 6148914691236517206ull /* (2^64+2)/3 */}, {uint64_t(1) << 32, (uint64_t(1) << 32) + 1},
    {8, (uint64_t(1) << 61) + 1}, {5, 3689348814741910324ull /* (2^64+4)/5 */}, {1, (uint64_t(1) << 32) + 1}, {2, (uint64_t(1) << 31) + 1},
    {uint64_t(1) << 33, 1}, {0, 4}, {4, 0}, {1, 1}, {3, 2}, {2, 3}};
  const int which = choose((int)(sizeof(cfgs) / sizeof(cfgs[0])));
  const uint64_t k = cfgs[which].k, segs = cfgs[which].segs;
  set_rand_domain(1);
  xenium::kirsch_bounded_kfifo_queue<int*>* q = nullptr;
  bool threw = false;
  try {
    q = new xenium::kirsch_bounded_kfifo_queue<int*>(k, segs);
  } catch (const std::invalid_argument&) {
    threw = true;
  }
  mark_nontrivial();
  if (k == 0 || segs == 0) {
    if (!threw) fail("ORACLE", "constructor accepted k = %lu, segments = %lu", (unsigned long)k, (unsigned long)segs);
    return;
  }
  if (threw) {
    if (k * segs <= 64 && segs < 64) fail("ORACLE", "constructor refused the small configuration k = %lu, segments = %lu", (unsigned long)k, (unsigned long)segs);
    return; // refused: nothing is promised
  }
  // accepted: at least min(20, (segs-1)*k+1) pushes must succeed on the empty queue
  unsigned __int128 bound = (unsigned __int128)(segs - 1) * k + 1;
  int need = bound > 20 ? 20 : (int)bound;
  for (int i = 1; i <= need; i++) {
    op_begin(0, i);
    bool ok = q->try_push(enc(i));
    op_end(ok);
    if (!ok) fail("ORACLE", "k = %lu, segments = %lu accepted by the constructor, but push #%d is rejected with only %d values stored", (unsigned long)k, (unsigned long)segs, i, i - 1);
  }
  for (int i = 1; i <= need; i++) {
    int* v = nullptr;
    op_begin(1);
    bool ok = q->try_pop(v);
    op_end(ok, ok ? dec(v) : 0);
    if (!ok) fail("ORACLE", "try_pop reports empty with %d values stored", need - i + 1);
  }
  delete q;
}
XMC_TEST_FN("kb_ctor", &kb_ctor, "kirsch_bounded_kfifo_queue: extreme constructor arguments");
XMC_TEST_FN("kb", (&kfifo_test<Bounded>), "kirsch_bounded_kfifo_queue");
XMC_TEST_FN("kf_hp", (&kfifo_test<Unbounded<rec::HPs<3>>>), "kirsch_kfifo_queue, HP");
XMC_TEST_FN("kf_hpd", (&kfifo_test<Unbounded<rec::HPd<1>>>), "kirsch_kfifo_queue, dynamic HP");
XMC_TEST_FN("kf_he", (&kfifo_test<Unbounded<rec::HEs<3>>>), "kirsch_kfifo_queue, HE");
XMC_TEST_FN("kf_qsbr", (&kfifo_test<Unbounded<rec::QSBR>>), "kirsch_kfifo_queue, QSBR");
XMC_TEST_FN("kf_ebr", (&kfifo_test<Unbounded<rec::EBR>>), "kirsch_kfifo_queue, EBR");
XMC_TEST_FN("kf_nebr", (&kfifo_test<Unbounded<rec::NEBR>>), "kirsch_kfifo_queue, NEBR");
XMC_TEST_FN("kf_debra", (&kfifo_test<Unbounded<rec::DEBRA>>), "kirsch_kfifo_queue, DEBRA");
XMC_TEST_FN("kf_stamp", (&kfifo_test<Unbounded<rec::STAMP>>), "kirsch_kfifo_queue, stamp_it");
XMC_TEST_FN("kb_boundary", &kb_boundary, "kirsch_bounded_kfifo_queue: sequential run round a ring of k*segments slots");
} // namespace
