// C15 (first half): marked_ptr round-trips every canonical pointer together with every mark value of the
// configured width; concurrent_ptr behaves as an atomic marked_ptr.  Pure enumeration: mark widths 0..32 x
// MaxUpperMarkBits in {0, 8, 16}; the value space of one width is split into shards (DATA choice) so that the
// explorer spreads it over the cores.
#include "harness/common.h"

#include <xenium/marked_ptr.hpp>

using namespace xmc;

namespace {
struct Dummy {
  int x;
};
constexpr int CNT_EVAL = 100;

template <uintptr_t W, uintptr_t U>
struct Check {
  using MP = xenium::marked_ptr<Dummy, W, U>;
  static constexpr uintptr_t lower = W < U ? 0 : W - U;
  static constexpr uintptr_t upper = W - lower;
  static uintptr_t ptr_mask() {
    uintptr_t pointer_bits = 64 - W;
    uintptr_t m = (W == 0) ? ~uintptr_t(0) : (((uintptr_t(1) << pointer_bits) - 1) << lower);
    return m & 0x00007fffffffffffULL; // canonical user addresses
  }
  static MP mk(Dummy* p, uintptr_t mark) {
    if constexpr (W == 0) {
      (void)mark;
      return MP(p);
    } else {
      return MP(p, mark);
    }
  }
  static void one(uintptr_t pbits, uintptr_t mark) {
    Dummy* p = reinterpret_cast<Dummy*>(pbits);
    MP m = mk(p, mark);
    if (m.operator->() != m.get()) fail("MARKED_PTR", "W=%lu U=%lu: operator-> differs from get()", (unsigned long)W, (unsigned long)U);
    if (m.get() != p) fail("MARKED_PTR", "W=%lu U=%lu: get() returns %p for pointer %p mark %#lx", (unsigned long)W, (unsigned long)U, (void*)m.get(), (void*)p, (unsigned long)mark);
    if (m.mark() != mark) fail("MARKED_PTR", "W=%lu U=%lu: mark() returns %#lx for pointer %p mark %#lx", (unsigned long)W, (unsigned long)U, (unsigned long)m.mark(), (void*)p, (unsigned long)mark);
    if (static_cast<bool>(m) != (p != nullptr || mark != 0)) fail("MARKED_PTR", "W=%lu U=%lu: operator bool wrong for pointer %p mark %#lx", (unsigned long)W, (unsigned long)U, (void*)p, (unsigned long)mark);
    MP same = mk(p, mark);
    if (!(m == same) || (m != same)) fail("MARKED_PTR", "W=%lu U=%lu: equal values compare unequal (pointer %p mark %#lx)", (unsigned long)W, (unsigned long)U, (void*)p, (unsigned long)mark);
    if constexpr (W > 0) {
      MP other(p, mark ^ 1);
      if (m == other || !(m != other)) fail("MARKED_PTR", "W=%lu U=%lu: different marks compare equal (pointer %p mark %#lx)", (unsigned long)W, (unsigned long)U, (void*)p, (unsigned long)mark);
    }
    uintptr_t p2 = pbits ^ (ptr_mask() & (~ptr_mask() + 1) ? (ptr_mask() & (~ptr_mask() + 1)) : 0); // flip the lowest usable pointer bit
    if (p2 != pbits) {
      MP otherp = mk(reinterpret_cast<Dummy*>(p2), mark);
      if (m == otherp) fail("MARKED_PTR", "W=%lu U=%lu: different pointers compare equal", (unsigned long)W, (unsigned long)U);
    }
    MP r = m;
    r.reset();
    if (r.get() != nullptr || r.mark() != 0 || static_cast<bool>(r)) fail("MARKED_PTR", "W=%lu U=%lu: reset() leaves a non-null value", (unsigned long)W, (unsigned long)U);
  }
  static void run(int shard, int shards, int full_limit) {
    const uintptr_t pm = ptr_mask();
    const uintptr_t lowbit = pm & (~pm + 1);
    const uintptr_t ptrs[5] = {0, lowbit, pm, pm & 0x0000555555555555ULL, pm & 0x00002aaaaaaaaaaaULL};
    long evals = 0;
    if ((int)W <= full_limit) {
      const uint64_t n = uint64_t(1) << W;
      for (uint64_t mk = (uint64_t)shard; mk < n; mk += (uint64_t)shards)
        for (uintptr_t pb : ptrs) {
          one(pb, (uintptr_t)mk);
          evals++;
        }
    } else if (shard == 0) { // boundary families
      const uintptr_t all = (W == 64) ? ~uintptr_t(0) : ((uintptr_t(1) << W) - 1);
      for (uintptr_t pb : ptrs) {
        one(pb, 0);
        one(pb, all);
        evals += 2;
        for (unsigned k = 0; k < W; k++) {
          one(pb, uintptr_t(1) << k);
          one(pb, all & ~(uintptr_t(1) << k));
          one(pb, (uintptr_t(1) << k) - 1);
          one(pb, ((uintptr_t(1) << k) + 1) & all);
          evals += 4;
        }
      }
    }
    cell_add(CNT_EVAL, evals);
  }
};

template <uintptr_t U, uintptr_t... Ws>
void run_widths(std::integer_sequence<uintptr_t, Ws...>, int only_w, int shard, int shards, int full_limit) {
  ((only_w < 0 || only_w == (int)Ws ? Check<Ws, U>::run(shard, shards, full_limit) : void()), ...);
}

void marked_ptr_test() {
  const int full_limit = (int)opt("full", 12), only_w = (int)opt("w", -1), shards = (int)opt("shards", 16);
  // a single DATA choice has at most 255 alternatives: more shards are enumerated as two choices
  const int shard = shards <= 128 ? choose(shards) : choose(16) * (shards / 16) + choose(shards / 16);
  const int u = choose(3);
  auto seq = std::make_integer_sequence<uintptr_t, 33>{};
  if (u == 0) run_widths<0>(seq, only_w, shard, shards, full_limit);
  if (u == 1) run_widths<8>(seq, only_w, shard, shards, full_limit);
  if (u == 2) run_widths<16>(seq, only_w, shard, shards, full_limit);
  mark_nontrivial();
  op_begin(0, shard, u); // make every shard a distinct recorded case
  op_end(cell_get(CNT_EVAL));
  note("shard %d/%d, MaxUpperMarkBits %d: %ld (pointer, mark) combinations checked", shard, shards, u == 0 ? 0 : u == 1 ? 8 : 16, cell_get(CNT_EVAL));
}
XMC_TEST_FN("marked_ptr", &marked_ptr_test, "marked_ptr round trip over all widths");

// concurrent_ptr is an atomic marked_ptr: store/load/exchange-style round trips through the atomic
template <class R>
void concurrent_ptr_test() {
  struct N : R::template enable_concurrent_ptr<N, 3> {
    int v = 0;
  };
  using CP = typename R::template concurrent_ptr<N, 3>;
  using MP = typename CP::marked_ptr;
  N* a = new N;
  N* b = new N;
  CP c;
  for (uintptr_t mk = 0; mk < 8; mk++)
    for (N* p : {static_cast<N*>(nullptr), a, b}) {
      c.store(MP(p, mk), std::memory_order_relaxed);
      MP l = c.load(std::memory_order_relaxed);
      if (l.get() != p || l.mark() != mk) fail("CONCURRENT_PTR", "load after store differs");
      MP expected(p, mk ^ 1);
      if (c.compare_exchange_strong(expected, MP(a, 0))) fail("CONCURRENT_PTR", "CAS with a different mark succeeded");
      if (expected.get() != p || expected.mark() != mk) fail("CONCURRENT_PTR", "failed CAS did not report the current value");
      expected = MP(p, mk);
      if (!c.compare_exchange_strong(expected, MP(b, 7 - mk))) fail("CONCURRENT_PTR", "CAS with the current value failed");
      l = c.load();
      if (l.get() != b || l.mark() != 7 - mk) fail("CONCURRENT_PTR", "value after CAS differs");
      // every compare_exchange overload (weak / strong, one / two orders, plain / volatile object): a CAS expecting
      // another pointer or another mark must fail, report the current value and leave the cell alone; a CAS expecting
      // the current value must succeed (a weak CAS fails spuriously only under --s) and install exactly `desired`
      volatile CP& vc = c;
      for (int ov = 0; ov < 8; ov++) {
        auto cas = [&](MP& e, MP d) {
          switch (ov) {
            case 0: return c.compare_exchange_weak(e, d);
            case 1: return vc.compare_exchange_weak(e, d, std::memory_order_acq_rel);
            case 2: return c.compare_exchange_weak(e, d, std::memory_order_release, std::memory_order_relaxed);
            case 3: return vc.compare_exchange_weak(e, d, std::memory_order_acq_rel, std::memory_order_acquire);
            case 4: return c.compare_exchange_strong(e, d);
            case 5: return vc.compare_exchange_strong(e, d, std::memory_order_acq_rel);
            case 6: return c.compare_exchange_strong(e, d, std::memory_order_release, std::memory_order_relaxed);
            default: return vc.compare_exchange_strong(e, d, std::memory_order_acq_rel, std::memory_order_acquire);
          }
        };
        MP cur = c.load(std::memory_order_relaxed);
        MP wrong(cur.get() == a ? b : a, cur.mark());
        if (cas(wrong, MP(p, mk)) || wrong != cur || c.load() != cur) fail("CONCURRENT_PTR", "CAS overload %d with a different pointer succeeded or misreported", ov);
        MP wrong2(cur.get(), (cur.mark() + 1) & 7);
        if (cas(wrong2, MP(p, mk)) || wrong2 != cur || c.load() != cur) fail("CONCURRENT_PTR", "CAS overload %d with a different mark succeeded or misreported", ov);
        MP desired(ov & 1 ? a : b, (mk + ov) & 7);
        MP e = cur;
        if (!cas(e, desired)) fail("CONCURRENT_PTR", "CAS overload %d with the current value failed", ov);
        if (c.load(std::memory_order_acquire) != desired) fail("CONCURRENT_PTR", "CAS overload %d installed a different value", ov);
      }
      if (p != nullptr) { // dereference through a marked pointer ignores the mark
        MP mp(p, mk);
        if (mp.operator->() != p || &*mp != p || mp->v != 0) fail("CONCURRENT_PTR", "operator-> / operator* of a marked_ptr with mark %lu do not reach the object", (unsigned long)mk);
      }
      // construction from a marked_ptr, store(guard_ptr) (shorthand for store(guard.get()): pointer without mark)
      CP c2(MP(p, mk));
      if (c2.load() != MP(p, mk)) fail("CONCURRENT_PTR", "constructor does not hold the given marked_ptr");
      if (p != nullptr) {
        typename CP::guard_ptr g;
        g.acquire(c2);
        if (g.get() != p) fail("CONCURRENT_PTR", "guard acquired from the cell refers to another object");
        c.store(g, std::memory_order_release);
        if (c.load().get() != p) fail("CONCURRENT_PTR", "store(guard_ptr) stored another pointer");
      }
    }
  mark_nontrivial();
  op_begin(1);
  op_end();
  delete a;
  delete b;
}
XMC_TEST_FN("concurrent_ptr_hp", &concurrent_ptr_test<rec::HPs<3>>, "concurrent_ptr as atomic marked_ptr (HP)");
XMC_TEST_FN("concurrent_ptr_ebr", &concurrent_ptr_test<rec::EBR>, "concurrent_ptr as atomic marked_ptr (EBR)");
XMC_TEST_FN("concurrent_ptr_lfrc", &concurrent_ptr_test<rec::LFRC>, "concurrent_ptr as atomic marked_ptr (LFRC)");
} // namespace
