// Shared harness definitions: reclaimer configurations (each tuned to reclaim as early as possible),
// program enumeration helpers.
#pragma once
#include "xmc/xmc.h"
#include "harness/lin.h"

#include <xenium/reclamation/generic_epoch_based.hpp>
#include <xenium/reclamation/hazard_eras.hpp>
#include <xenium/reclamation/hazard_pointer.hpp>
#include <xenium/reclamation/lock_free_ref_count.hpp>
#include <xenium/reclamation/quiescent_state_based.hpp>
#include <xenium/reclamation/stamp_it.hpp>
#include <xenium/policy.hpp>

namespace rec {
namespace xr = xenium::reclamation;
namespace xp = xenium::policy;

template <size_t K>
using HPs = xr::hazard_pointer<>::with<xp::allocation_strategy<xr::hp_allocation::static_strategy<K, 0, 0>>>;
template <size_t K>
using HPd = xr::hazard_pointer<>::with<xp::allocation_strategy<xr::hp_allocation::dynamic_strategy<K, 0, 0>>>;
template <size_t K>
using HEs = xr::hazard_eras<>::with<xp::allocation_strategy<xr::he_allocation::static_strategy<K, 0, 0>>>;
template <size_t K>
using HEd = xr::hazard_eras<>::with<xp::allocation_strategy<xr::he_allocation::dynamic_strategy<K, 0, 0>>>;
// scan threshold proportional to the number of hazard pointers / eras of the threads that are alive (A = 1): the
// backlog a lone thread may accumulate must not depend on how many threads have come and gone (C17)
using HPs_A1 = xr::hazard_pointer<>::with<xp::allocation_strategy<xr::hp_allocation::static_strategy<3, 1, 0>>>;
using HPd_A1 = xr::hazard_pointer<>::with<xp::allocation_strategy<xr::hp_allocation::dynamic_strategy<1, 1, 0>>>;
using HEs_A1 = xr::hazard_eras<>::with<xp::allocation_strategy<xr::he_allocation::static_strategy<3, 1, 0>>>;
using HEd_A1 = xr::hazard_eras<>::with<xp::allocation_strategy<xr::he_allocation::dynamic_strategy<1, 1, 0>>>;
using QSBR = xr::quiescent_state_based;
using EBR = xr::epoch_based<>::with<xp::scan_frequency<0>>;
using NEBR = xr::new_epoch_based<>::with<xp::scan_frequency<0>>;
using DEBRA = xr::debra<>::with<xp::scan_frequency<0>>;
using GEBR_LAZY = xr::generic_epoch_based<>::with<xp::scan_frequency<0>, xp::scan<xr::scan::n_threads<2>>,
                                                  xp::abandon<xr::abandon::always>,
                                                  xp::region_extension<xr::region_extension::lazy>>;
using GEBR_THR = xr::generic_epoch_based<>::with<xp::scan_frequency<0>, xp::scan<xr::scan::all_threads>,
                                                 xp::abandon<xr::abandon::when_exceeds_threshold<1>>,
                                                 xp::region_extension<xr::region_extension::none>>;
// less eager parameters: the counters that delay a scan / an epoch advance are part of the protocol too
using EBR_F2 = xr::epoch_based<>::with<xp::scan_frequency<2>>;
using DEBRA_F1 = xr::debra<>::with<xp::scan_frequency<1>>;
using GEBR_F3 = xr::generic_epoch_based<>::with<xp::scan_frequency<3>, xp::scan<xr::scan::n_threads<1>>, xp::abandon<xr::abandon::when_exceeds_threshold<2>>,
                                                xp::region_extension<xr::region_extension::eager>>;
using HPs_B2 = xr::hazard_pointer<>::with<xp::allocation_strategy<xr::hp_allocation::static_strategy<3, 0, 2>>>;
using HEd_B2 = xr::hazard_eras<>::with<xp::allocation_strategy<xr::he_allocation::dynamic_strategy<1, 0, 2>>>;
using STAMP = xr::stamp_it;
using LFRC = xr::lock_free_ref_count<>;
using LFRC_TL = xr::lock_free_ref_count<>::with<xp::thread_local_free_list_size<2>>;
} // namespace rec

namespace hx {
// enumerate a program: T threads x m operations, each operation drawn from `nops` alternatives.
// Thread-symmetric duplicates (thread t's op list lexicographically greater than thread t+1's) are pruned
// when `symmetric` is set.
struct Program {
  int T, m;
  int op[8][8];
};
inline Program choose_program(int T, int m, int nops, bool symmetric) {
  Program p;
  p.T = T;
  p.m = m;
  for (int t = 0; t < T; t++)
    for (int i = 0; i < m; i++) p.op[t][i] = xmc::choose(nops);
  if (symmetric) {
    for (int t = 0; t + 1 < T; t++) {
      for (int i = 0; i < m; i++) {
        if (p.op[t][i] < p.op[t + 1][i]) break;
        if (p.op[t][i] > p.op[t + 1][i]) xmc::prune();
      }
    }
  }
  return p;
}
} // namespace hx
