// C12: chase_work_stealing_deque hands out every pushed item exactly once.
// One owner (try_push / try_pop) and 1-2 thieves (try_steal); capacity<2> so that growth happens inside the
// history; `offset` push+steal pairs advance top/bottom before the interesting part (growth at an index offset).
#include "harness/common.h"

#include <xenium/chase_work_stealing_deque.hpp>
#include <xenium/detail/fixed_size_circular_array.hpp>

using namespace xmc;

namespace {
const char* const kOps[] = {"try_push", "try_pop", "try_steal"};

struct DequeSpec {
  uint8_t q[12];
  int n = 0;
  int fixed_cap = -1; // >=0: push fails iff size >= cap; -1: push never fails
  bool apply(const Event& e) {
    int overl = (int)e.res_vc[MAXT - 1];
    switch (e.op) {
      case 0:
        if (e.r0) {
          if (n >= 12 || (fixed_cap >= 0 && n >= fixed_cap)) return false;
          q[n++] = uint8_t(e.a0);
          return true;
        }
        return fixed_cap >= 0 && n >= fixed_cap;
      case 1: // owner pops the youngest
        if (e.r0) {
          if (n == 0 || q[n - 1] != e.r1) return false;
          n--;
          return true;
        }
        return n == 0;
      default: // thief takes the oldest; may fail when it loses a race
        if (e.r0) {
          if (n == 0 || q[0] != e.r1) return false;
          for (int i = 1; i < n; i++) q[i - 1] = q[i];
          n--;
          return true;
        }
        return n == 0 || overl > 0;
    }
  }
  uint64_t hash() const {
    uint64_t h = n;
    for (int i = 0; i < n; i++) h = (h << 5) | q[i];
    return h;
  }
};

struct Item {
  int v;
};

template <class D, int FixedCap>
void deque_test() {
  set_op_names(kOps, 3);
  const int m = (int)opt("m", 3), thieves = (int)opt("thieves", 1), s = (int)opt("s", 2);
  const int offset = (int)opt("offset", -1) >= 0 ? (int)opt("offset", 0) : choose((int)opt("maxoffset", 3) + 1);
  const int prefill = (int)opt("prefill", -1) >= 0 ? (int)opt("prefill", 0) : choose(3);
  int prog[8];
  int pushes = prefill;
  for (int i = 0; i < m; i++) {
    prog[i] = choose(2);
    pushes += prog[i] == 0;
  }
  if (pushes == 0) prune();
  static Item items[64];
  for (int i = 0; i < 64; i++) items[i].v = i;
  D* d = new D();
  int next = 1;
  auto push = [d](int v) {
    op_begin(0, v);
    bool ok = d->try_push(&items[v]);
    op_end(ok);
  };
  auto value_of = [](Item* it, const char* what) {
    if (it < &items[0] || it > &items[63] || (reinterpret_cast<char*>(it) - reinterpret_cast<char*>(&items[0])) % sizeof(Item) != 0)
      fail("INVENTED", "%s returned %p, which is not an item that was ever pushed", what, (void*)it);
    return it->v;
  };
  auto pop = [d, value_of]() {
    Item* it = nullptr;
    op_begin(1);
    bool ok = d->try_pop(it);
    int v = ok ? value_of(it, "try_pop") : 0;
    op_end(ok, v);
  };
  auto steal = [d, value_of]() {
    Item* it = nullptr;
    op_begin(2);
    bool ok = d->try_steal(it);
    int v = ok ? value_of(it, "try_steal") : 0;
    op_end(ok, v);
  };
  for (int i = 0; i < offset; i++) { // advance top and bottom: T0 acts as owner and as thief, sequentially
    push(next++);
    steal();
  }
  for (int i = 0; i < prefill; i++) push(next++);
  int base = next;
  if (thieves == 0) {
    mark_nontrivial(); // sequential conformance: every operation sequence counts
    for (int i = 0; i < m; i++) {
      int o = prog[i];
      if (o == 0) push(base + i);
      else
        pop();
      if (opt("steal_between", 0) && choose(2)) steal();
    }
  } else {
    int pr[8];
    for (int i = 0; i < m; i++) pr[i] = prog[i];
    spawn([=] {
      for (int i = 0; i < m; i++) {
        if (pr[i] == 0) push(base + i);
        else
          pop();
      }
    });
    for (int t = 0; t < thieves; t++)
      spawn([=] {
        for (int i = 0; i < s; i++) steal();
      });
    join_all();
  }
  for (int i = 0; i < 14; i++) { // drain: T0 is the owner now (everybody else has been joined)
    int before = history_size();
    pop();
    if (history_at(before).r0 == 0) break;
  }
  delete d;
  DequeSpec sp;
  sp.fixed_cap = FixedCap;
  lin::require_linearizable(sp, "a sequential deque (owner LIFO, thieves FIFO, steal may fail in a race)");
}

// Sequential sweep over index offsets, fill levels and growth steps beyond what the concurrent families reach: the deque
// is moved to offset o (push+steal pairs), filled with n items (several doublings of the array: 2 -> 4 -> ... -> 64),
// part of them is taken out again from either end, a second batch is pushed (growth with a window that wraps the old
// array at an arbitrary position), and everything is drained in one of three patterns.  Compared step by step with
// a reference deque; `MaxCap` > 0: pushes beyond that capacity must be refused and leave the contents intact.
template <class D, int MaxCap>
void deque_sweep() {
  const int maxoffset = (int)opt("maxoffset", 20), maxn = (int)opt("maxn", 34);
  const int offset = choose(maxoffset + 1);
  const int n = 1 + choose(maxn);
  const int take = choose(3);    // 0: nothing, 1: steal n/2, 2: pop n/3 before the second batch
  const int second = choose(3);  // second batch: 0, n/2+1, n+1 items
  const int pattern = choose(3); // drain: 0 pops, 1 steals, 2 alternating
  static Item items[256];
  for (int i = 0; i < 256; i++) items[i].v = i;
  D* d = new D();
  int ref[256];
  int lo = 0, hi = 0; // reference contents ref[lo..hi)
  int next = 1;
  auto push = [&](bool must) -> bool {
    int v = next++;
    bool ok = d->try_push(&items[v]);
    bool expect = MaxCap <= 0 || hi - lo < MaxCap;
    if (ok != expect) fail("ORACLE", "try_push(%d) returned %d with %d items stored (offset %d)", v, (int)ok, hi - lo, offset);
    if (ok) ref[hi++] = v;
    (void)must;
    return ok;
  };
  auto pop = [&]() {
    Item* it = nullptr;
    bool ok = d->try_pop(it);
    if (ok != (hi > lo)) fail("ORACLE", "try_pop returned %d with %d items stored", (int)ok, hi - lo);
    if (ok) {
      if (it < &items[0] || it > &items[255]) fail("INVENTED", "try_pop returned %p, not a pushed item", (void*)it);
      if (it->v != ref[hi - 1]) fail("ORACLE", "try_pop returned %d, expected %d (the youngest of %d items, offset %d)", it->v, ref[hi - 1], hi - lo, offset);
      hi--;
    }
  };
  auto steal = [&]() {
    Item* it = nullptr;
    bool ok = d->try_steal(it);
    if (ok != (hi > lo)) fail("ORACLE", "try_steal returned %d with %d items stored and nothing running concurrently", (int)ok, hi - lo);
    if (ok) {
      if (it < &items[0] || it > &items[255]) fail("INVENTED", "try_steal returned %p, not a pushed item", (void*)it);
      if (it->v != ref[lo]) fail("ORACLE", "try_steal returned %d, expected %d (the oldest of %d items, offset %d)", it->v, ref[lo], hi - lo, offset);
      lo++;
    }
  };
  auto check_size = [&]() {
    if ((int)d->size() != hi - lo) fail("ORACLE", "size() = %d with %d items stored", (int)d->size(), hi - lo);
  };
  for (int i = 0; i < offset; i++) {
    push(true);
    steal();
  }
  // (a long row of refused pushes re-reads unchanged indexes and would be taken for a busy-wait loop: three refusals suffice)
  for (int i = 0, refused = 0; i < n && refused < 3; i++) refused += !push(true);
  check_size();
  if (take == 1)
    for (int i = 0; i < n / 2; i++) steal();
  if (take == 2)
    for (int i = 0; i < n / 3; i++) pop();
  const int n2 = second == 0 ? 0 : second == 1 ? n / 2 + 1 : n + 1;
  for (int i = 0, refused = 0; i < n2 && refused < 3; i++) refused += !push(true);
  check_size();
  for (int i = 0; hi > lo || i == 0; i++) {
    if (pattern == 0 || (pattern == 2 && (i & 1))) pop();
    else
      steal();
    if (i > 300) break;
  }
  pop();
  steal();
  check_size();
  push(true); // still usable
  steal();
  mark_nontrivial();
  delete d;
}

namespace xp = xenium::policy;
using Growing2 = xenium::chase_work_stealing_deque<Item, xp::capacity<2>>;
using Growing4 = xenium::chase_work_stealing_deque<Item, xp::capacity<4>>;
using Fixed2 = xenium::chase_work_stealing_deque<Item, xp::capacity<2>, xp::container<xenium::detail::fixed_size_circular_array<Item, 2>>>;
using Fixed4 = xenium::chase_work_stealing_deque<Item, xp::capacity<4>, xp::container<xenium::detail::fixed_size_circular_array<Item, 4>>>;

using GrowingMax8 = xenium::chase_work_stealing_deque<Item, xp::capacity<2>, xp::container<xenium::detail::growing_circular_array<Item, 2, 8>>>;
XMC_TEST_FN("sweep_grow2", (&deque_sweep<Growing2, 0>), "sequential sweep: offsets x fill levels x drain patterns, growing container from capacity 2");
XMC_TEST_FN("sweep_grow4", (&deque_sweep<Growing4, 0>), "sequential sweep, growing container from capacity 4");
XMC_TEST_FN("sweep_growmax8", (&deque_sweep<GrowingMax8, 8>), "sequential sweep, growing container 2..8: pushes beyond the maximal capacity are refused");
XMC_TEST_FN("sweep_fixed4", (&deque_sweep<Fixed4, 4>), "sequential sweep, fixed container of 4");
XMC_TEST_FN("grow2", (&deque_test<Growing2, -1>), "growing container, initial capacity 2");
XMC_TEST_FN("grow4", (&deque_test<Growing4, -1>), "growing container, initial capacity 4");
XMC_TEST_FN("fixed2", (&deque_test<Fixed2, 2>), "fixed container, capacity 2");
XMC_TEST_FN("fixed4", (&deque_test<Fixed4, 4>), "fixed container, capacity 4");
} // namespace
