// C07: queues own their elements - every accepted value is handed to exactly one consumer or destroyed
// exactly once by the queue's destructor; rejected values stay with the caller; nothing is destroyed twice,
// destroyed after hand-over, or leaked.  All queue types x element kinds; the queue is destroyed with an
// arbitrary number of elements still inside (no drain).
#include "harness/common.h"

#include <xenium/kirsch_bounded_kfifo_queue.hpp>
#include <xenium/kirsch_kfifo_queue.hpp>
#include <xenium/michael_scott_queue.hpp>
#include <xenium/nikolaev_bounded_queue.hpp>
#include <xenium/nikolaev_queue.hpp>
#include <xenium/ramalhete_queue.hpp>
#include <xenium/vyukov_bounded_queue.hpp>

#include <memory>

using namespace xmc;

namespace {
constexpr int ALIVE = 0, DTOR = 1000, ACCEPTED = 2000, POPPED = 3000, REJECTED = 4000;
const char* const kOps[] = {"push", "try_pop", "destroy_queue"};

struct E { // heap element, owned through unique_ptr or raw pointer
  int id;
  int payload;
  explicit E(int i) : id(i), payload(i * 5 + 1) { cell_set(ALIVE + id, 1); }
  ~E() {
    cell_add(DTOR + id, 1);
    cell_set(ALIVE + id, 0);
    payload = -7;
  }
};
struct V { // non-trivial movable value type: identity travels with moves, moved-from shells have id -1
  int id = -1;
  int payload = 0;
  V() = default;
  explicit V(int i) : id(i), payload(i * 5 + 1) { cell_set(ALIVE + id, 1); }
  V(V&& o) noexcept : id(o.id), payload(o.payload) { o.id = -1; }
  V& operator=(V&& o) noexcept {
    if (this != &o) {
      drop();
      id = o.id;
      payload = o.payload;
      o.id = -1;
    }
    return *this;
  }
  V(const V&) = delete;
  V& operator=(const V&) = delete;
  ~V() { drop(); }
  void drop() {
    if (id >= 0) {
      cell_add(DTOR + id, 1);
      cell_set(ALIVE + id, 0);
      id = -1;
    }
  }
};

struct UPElem {
  using type = std::unique_ptr<E>;
  static constexpr bool harness_owns = false;
  static type make(int id) { return type(new E(id)); }
  static bool holds(const type& v) { return v != nullptr; }
  static int id_of(const type& v) { return v->id; }
  static int payload_of(const type& v) { return v->payload; }
  static void destroy(type& v) { v.reset(); }
};
struct RawElem {
  using type = E*;
  static constexpr bool harness_owns = true;
  static type make(int id) { return new E(id); }
  static bool holds(const type& v) { return v != nullptr; }
  static int id_of(const type& v) { return v->id; }
  static int payload_of(const type& v) { return v->payload; }
  static void destroy(type& v) {
    delete v;
    v = nullptr;
  }
};
struct ValElem {
  using type = V;
  static constexpr bool harness_owns = false;
  static type make(int id) { return V(id); }
  static bool holds(const type& v) { return v.id >= 0; }
  static int id_of(const type& v) { return v.id; }
  static int payload_of(const type& v) { return v.payload; }
  static void destroy(type& v) { v.drop(); }
};

// ---- queue adapters: push returns whether the value was accepted; a rejected value must still be in `v`
// for forwarding interfaces, and may have been consumed by a by-value parameter otherwise (then it was
// destroyed with the parameter, i.e. by the caller side - the ledger tells).
template <class Q>
struct PushAlways {
  template <class T>
  static bool push(Q& q, T& v) {
    q.push(std::move(v));
    return true;
  }
};
template <class Q>
struct TryPush {
  template <class T>
  static bool push(Q& q, T& v) {
    return q.try_push(std::move(v));
  }
};

template <class Q>
struct LockFreeOps : std::true_type {};
template <class T, class... P>
struct LockFreeOps<xenium::vyukov_bounded_queue<T, P...>> : std::false_type {}; // try_push/try_pop are the strong (blocking) variants

// try_push of vyukov_bounded_queue takes forwarding references: a rejected push must not have touched the caller's value
// (the by-value try_push(value_type) of the other bounded queues consumes its argument on the caller's side)
template <class Q>
struct ForwardingPush : std::false_type {};
template <class T, class... P>
struct ForwardingPush<xenium::vyukov_bounded_queue<T, P...>> : std::true_type {};

template <class Q, class = void>
struct has_pop : std::false_type {};
template <class Q>
struct has_pop<Q, std::void_t<decltype(std::declval<Q&>().pop())>> : std::true_type {};

template <class Q, class El, class Push, class Make>
void own_test() {
  constexpr bool LF = LockFreeOps<Q>::value;
  set_op_names(kOps, 3);
  const int T = (int)opt("T", 2), m = (int)opt("m", 2);
  const int prefill = (int)opt("prefill", 0);
  // --opt rdom=k: utils::random() (the start slot inside a k-FIFO segment) is a recorded choice over [0,k); deviations from 0 are bounded by --r
  set_rand_domain((int)opt("rdom", 1));
  hx::Program p;
  if (opt("prog", -1) >= 0) { // --opt prog=<bits>: one fixed program, bit (t*m+i) set = operation i of thread t is a pop (targeted families)
    p.T = T;
    p.m = m;
    for (int t = 0; t < T; t++)
      for (int i = 0; i < m; i++) p.op[t][i] = (opt("prog", 0) >> (t * m + i)) & 1;
  } else
    p = hx::choose_program(T, m, 2, T > 1);
  int pushes = 0;
  for (int t = 0; t < T; t++)
    for (int i = 0; i < m; i++) pushes += p.op[t][i] == 0;
  if (pushes + prefill == 0) prune();
  Q* q = Make::make();
  int next = 1;
  auto do_push = [q](int id) {
    typename El::type v = El::make(id);
    op_begin(0, id, 0, LF);
    bool ok = Push::push(*q, v);
    op_end(ok);
    if (ok) {
      cell_set(ACCEPTED + id, 1);
      if (El::holds(v) && !El::harness_owns) fail("OWNERSHIP", "push accepted element %d but left it with the caller as well", id);
    } else {
      cell_set(REJECTED + id, 1);
      // rejected: the element must not be inside the queue; if the caller still holds it, it must be intact
      if (El::holds(v)) {
        if (El::id_of(v) != id || cell_get(ALIVE + id) != 1) fail("OWNERSHIP", "rejected element %d came back damaged", id);
        El::destroy(v);
      } else if (ForwardingPush<Q>::value) {
        fail("OWNERSHIP", "rejected push (forwarding interface) did not leave element %d with the caller", id);
      } else if (El::harness_owns) {
        fail("OWNERSHIP", "raw pointer lost by a rejected push");
      }
    }
  };
  // popping entry point: try_pop(value_type&) for even, pop() -> std::optional<value_type> for odd sequence numbers
  // (--opt api=0 / 1 fixes one of them); michael_scott_queue has try_pop only
  const int api = (int)opt("api", 2);
  auto do_pop = [q, api](int seq) {
    typename El::type v{};
    op_begin(1, 0, 0, LF);
    bool ok;
    if constexpr (has_pop<Q>::value) {
      if (api == 1 || (api == 2 && (seq & 1))) {
        auto r = q->pop();
        ok = r.has_value();
        if (ok) v = std::move(*r);
      } else
        ok = q->try_pop(v);
    } else
      ok = q->try_pop(v);
    op_end(ok, ok && El::holds(v) ? El::id_of(v) : 0);
    if (ok) {
      if (!El::holds(v)) fail("OWNERSHIP", "successful pop returned an empty value");
      int id = El::id_of(v);
      if (id <= 0 || id >= 1000) fail("OWNERSHIP", "pop returned an unknown element %d", id);
      if (cell_get(ALIVE + id) != 1 || cell_get(DTOR + id) != 0) fail("OWNERSHIP", "element %d was destroyed although it was handed to a consumer", id);
      if (El::payload_of(v) != id * 5 + 1) fail("OWNERSHIP", "element %d has a corrupted payload", id);
      if (cell_add(POPPED + id, 1) != 1) fail("OWNERSHIP", "element %d was popped twice", id);
      El::destroy(v);
    }
  };
  for (int i = 0; i < prefill; i++) do_push(next++);
  for (int t = 0; t < T; t++) {
    int base = next + t * m;
    spawn([p, t, m, base, do_push, do_pop] {
      for (int i = 0; i < m; i++) {
        if (p.op[t][i] == 0) do_push(base + i);
        else
          do_pop(i + 1);
      }
    });
  }
  join_all();
  int last = next + T * m - 1;
  int inside = 0;
  for (int id = 1; id <= last; id++)
    if (cell_get(ACCEPTED + id) && !cell_get(POPPED + id)) inside++;
  if (inside > 0) mark_nontrivial();
  op_begin(2, inside);
  delete q;
  op_end();
  for (int id = 1; id <= last; id++) {
    bool created = cell_get(ACCEPTED + id) || cell_get(REJECTED + id);
    if (!created) continue;
    bool in_queue_at_end = cell_get(ACCEPTED + id) && !cell_get(POPPED + id);
    if (El::harness_owns && in_queue_at_end) {
      // raw pointers: ownership stays with the client; the queue must not have deleted it
      if (cell_get(DTOR + id) != 0) fail("OWNERSHIP", "queue deleted raw-pointer element %d it does not own", id);
      continue; // (the element object itself is intentionally left; it is not the queue's to free)
    }
    long d = cell_get(DTOR + id);
    if (d == 0) fail("LEAK", "element %d (%s) was never destroyed", id, in_queue_at_end ? "inside the queue at destruction" : "handed out");
    if (d > 1) fail("DOUBLE_DESTROY", "element %d was destroyed %ld times", id, d);
  }
}

namespace xp = xenium::policy;
template <class Q>
struct MakeDefault {
  static Q* make() { return new Q(); }
};
template <class Q, int A>
struct Make1 {
  static Q* make() { return new Q(A); }
};
template <class Q, int A, int B>
struct Make2 {
  static Q* make() { return new Q(A, B); }
};

#define OWN(name, Q, El, Push, Make, desc) XMC_TEST_FN(name, (&own_test<Q, El, Push<Q>, Make>), desc)
#define COMMA ,

using R1 = rec::HPs<3>;
using R2 = rec::EBR;
using R3 = rec::LFRC;

// michael_scott_queue
#define MSQ(R, T) xenium::michael_scott_queue<T, xp::reclaimer<R>>
OWN("ms_up_hp", MSQ(R1, std::unique_ptr<E>), UPElem, PushAlways, MakeDefault<MSQ(R1, std::unique_ptr<E>)>, "MS queue, unique_ptr, HP");
OWN("ms_up_ebr", MSQ(R2, std::unique_ptr<E>), UPElem, PushAlways, MakeDefault<MSQ(R2, std::unique_ptr<E>)>, "MS queue, unique_ptr, EBR");
OWN("ms_up_lfrc", MSQ(R3, std::unique_ptr<E>), UPElem, PushAlways, MakeDefault<MSQ(R3, std::unique_ptr<E>)>, "MS queue, unique_ptr, LFRC");
OWN("ms_val_hp", MSQ(R1, V), ValElem, PushAlways, MakeDefault<MSQ(R1, V)>, "MS queue, movable value, HP");
OWN("ms_raw_hp", MSQ(R1, E*), RawElem, PushAlways, MakeDefault<MSQ(R1, E*)>, "MS queue, raw pointer, HP");

// ramalhete_queue
#define RAMQ(R, T, EN, P) xenium::ramalhete_queue<T, xp::reclaimer<R>, xp::entries_per_node<EN>, xp::pop_retries<P>>
OWN("ram_e1_up_hp", RAMQ(R1, std::unique_ptr<E>, 1, 0), UPElem, PushAlways, MakeDefault<RAMQ(R1, std::unique_ptr<E>, 1, 0)>, "ramalhete e=1, unique_ptr, HP");
OWN("ram_e2_up_hp", RAMQ(R1, std::unique_ptr<E>, 2, 0), UPElem, PushAlways, MakeDefault<RAMQ(R1, std::unique_ptr<E>, 2, 0)>, "ramalhete e=2, unique_ptr, HP");
OWN("ram_e2_up_ebr", RAMQ(R2, std::unique_ptr<E>, 2, 1), UPElem, PushAlways, MakeDefault<RAMQ(R2, std::unique_ptr<E>, 2, 1)>, "ramalhete e=2, unique_ptr, EBR");
OWN("ram_e2_up_lfrc", RAMQ(R3, std::unique_ptr<E>, 2, 0), UPElem, PushAlways, MakeDefault<RAMQ(R3, std::unique_ptr<E>, 2, 0)>, "ramalhete e=2, unique_ptr, LFRC");
OWN("ram_e2_raw_hp", RAMQ(R1, E*, 2, 0), RawElem, PushAlways, MakeDefault<RAMQ(R1, E*, 2, 0)>, "ramalhete e=2, raw pointer, HP");

// nikolaev_queue
#define NIKQ(R, T, EN, P) xenium::nikolaev_queue<T, xp::reclaimer<R>, xp::entries_per_node<EN>, xp::pop_retries<P>>
OWN("nik_e1_up_hp", NIKQ(R1, std::unique_ptr<E>, 1, 0), UPElem, PushAlways, MakeDefault<NIKQ(R1, std::unique_ptr<E>, 1, 0)>, "nikolaev e=1, unique_ptr, HP");
OWN("nik_e2_up_ebr", NIKQ(R2, std::unique_ptr<E>, 2, 1), UPElem, PushAlways, MakeDefault<NIKQ(R2, std::unique_ptr<E>, 2, 1)>, "nikolaev e=2, unique_ptr, EBR");
OWN("nik_e2_val_hp", NIKQ(R1, V, 2, 0), ValElem, PushAlways, MakeDefault<NIKQ(R1, V, 2, 0)>, "nikolaev e=2, movable value, HP");
OWN("nik_e1_val_lfrc", NIKQ(R3, V, 1, 0), ValElem, PushAlways, MakeDefault<NIKQ(R3, V, 1, 0)>, "nikolaev e=1, movable value, LFRC");

// kirsch_kfifo_queue (no LFRC: rejected by the library)
#define KFQ(R, T) xenium::kirsch_kfifo_queue<T, xp::reclaimer<R>>
OWN("kf_k1_up_hp", KFQ(R1, std::unique_ptr<E>), UPElem, PushAlways, Make1<KFQ(R1, std::unique_ptr<E>) COMMA 1>, "kirsch k=1, unique_ptr, HP");
OWN("kf_k2_up_hp", KFQ(R1, std::unique_ptr<E>), UPElem, PushAlways, Make1<KFQ(R1, std::unique_ptr<E>) COMMA 2>, "kirsch k=2, unique_ptr, HP");
OWN("kf_k2_up_ebr", KFQ(R2, std::unique_ptr<E>), UPElem, PushAlways, Make1<KFQ(R2, std::unique_ptr<E>) COMMA 2>, "kirsch k=2, unique_ptr, EBR");
OWN("kf_k2_raw_hp", KFQ(R1, E*), RawElem, PushAlways, Make1<KFQ(R1, E*) COMMA 2>, "kirsch k=2, raw pointer, HP");

// kirsch_bounded_kfifo_queue
#define KBQ(T) xenium::kirsch_bounded_kfifo_queue<T>
OWN("kb_k1s2_up", KBQ(std::unique_ptr<E>), UPElem, TryPush, Make2<KBQ(std::unique_ptr<E>) COMMA 1 COMMA 2>, "kirsch bounded k=1 segments=2, unique_ptr");
OWN("kb_k2s2_up", KBQ(std::unique_ptr<E>), UPElem, TryPush, Make2<KBQ(std::unique_ptr<E>) COMMA 2 COMMA 2>, "kirsch bounded k=2 segments=2, unique_ptr");
OWN("kb_k1s1_up", KBQ(std::unique_ptr<E>), UPElem, TryPush, Make2<KBQ(std::unique_ptr<E>) COMMA 1 COMMA 1>, "kirsch bounded k=1 segments=1, unique_ptr");
OWN("kb_k2s2_raw", KBQ(E*), RawElem, TryPush, Make2<KBQ(E*) COMMA 2 COMMA 2>, "kirsch bounded k=2 segments=2, raw pointer");

// nikolaev_bounded_queue
#define NBQ(T) xenium::nikolaev_bounded_queue<T, xp::pop_retries<1>>
OWN("nb_c1_up", NBQ(std::unique_ptr<E>), UPElem, TryPush, Make1<NBQ(std::unique_ptr<E>) COMMA 1>, "nikolaev bounded cap=1, unique_ptr");
OWN("nb_c2_up", NBQ(std::unique_ptr<E>), UPElem, TryPush, Make1<NBQ(std::unique_ptr<E>) COMMA 2>, "nikolaev bounded cap=2, unique_ptr");
OWN("nb_c2_val", NBQ(V), ValElem, TryPush, Make1<NBQ(V) COMMA 2>, "nikolaev bounded cap=2, movable value");

// vyukov_bounded_queue
#define VBQ(T) xenium::vyukov_bounded_queue<T>
OWN("vb_s2_up", VBQ(std::unique_ptr<E>), UPElem, TryPush, Make1<VBQ(std::unique_ptr<E>) COMMA 2>, "vyukov bounded size=2, unique_ptr");
OWN("vb_s2_val", VBQ(V), ValElem, TryPush, Make1<VBQ(V) COMMA 2>, "vyukov bounded size=2, movable value");
OWN("vb_s4_up", VBQ(std::unique_ptr<E>), UPElem, TryPush, Make1<VBQ(std::unique_ptr<E>) COMMA 4>, "vyukov bounded size=4, unique_ptr");
} // namespace
