// Sequential sweeps (C04, C05, C06, C07): every queue type at node / ring / segment sizes well above the tiny ones the
// concurrent families use, so that the index arithmetic that only matters there is exercised - SCQ cache-line remapping
// (from 8 entries), several node hand-overs in a row, capacities that are not powers of two, k and segment counts up to
// 6, several laps round a ring.  One thread; all shapes of the family
//     push n1 | pop 0, n1/2 or all (+1) | push 0, n1/2+1 or n1+3 | drain | one more push / pop       x laps
// are enumerated (DATA choices) and compared step by step with a reference FIFO: exact for the FIFO queues, "one of
// the k oldest" for the k-FIFO queues; a bounded queue must accept exactly up to its capacity (k-FIFO: must accept below
// (segments-1)*k+1 values and must refuse at k*segments).  Elements are std::unique_ptr<E> / plain ints: the
// construction / destruction ledger is checked at the end (the queue is destroyed with `rest` elements inside).
#include "harness/common.h"

#include <xenium/kirsch_bounded_kfifo_queue.hpp>
#include <xenium/kirsch_kfifo_queue.hpp>
#include <xenium/michael_scott_queue.hpp>
#include <xenium/nikolaev_bounded_queue.hpp>
#include <xenium/nikolaev_queue.hpp>
#include <xenium/ramalhete_queue.hpp>
#include <xenium/vyukov_bounded_queue.hpp>

#include <memory>
#include <optional>

using namespace xmc;

namespace {
constexpr int ALIVE = 0, DTOR = 2000;
struct E {
  int id;
  int payload;
  explicit E(int i) : id(i), payload(i * 7 + 3) { cell_set(ALIVE + id, 1); }
  ~E() {
    cell_add(DTOR + id, 1);
    cell_set(ALIVE + id, 0);
    payload = -1;
  }
};
using UP = std::unique_ptr<E>;

template <class Q, class = void>
struct has_pop : std::false_type {};
template <class Q>
struct has_pop<Q, std::void_t<decltype(std::declval<Q&>().pop())>> : std::true_type {};
template <class Q, class = void>
struct has_try_push : std::false_type {};
template <class Q>
struct has_try_push<Q, std::void_t<decltype(std::declval<Q&>().try_push(std::declval<UP>()))>> : std::true_type {};

template <class Q>
struct forwarding_push : std::false_type {};
template <class T, class... P>
struct forwarding_push<xenium::vyukov_bounded_queue<T, P...>> : std::true_type {};

// K = 1: exact FIFO.  accept_below: pushes must be accepted while fewer than this many values are stored (<0: always),
// refuse_at: pushes must be refused when this many are stored (<0: never)
struct Shape {
  int k = 1;
  int accept_below = -1;
  int refuse_at = -1;
};

template <class Q>
void sweep_run(Q* q, Shape sh, int rand_domain) {
  const int maxn = (int)opt("maxn", 20), laps = (int)opt("laps", 2), rest = (int)opt("rest", 2);
  set_rand_domain(rand_domain);
  const int n1 = 1 + choose(maxn);
  const int take = choose(3), second = choose(3);
  int ref[1024];
  int lo = 0, hi = 0;
  int next = 1, seq = 0;
  auto push = [&]() -> bool {
    int id = next++;
    if (id >= 1900) fail("ORACLE", "harness: too many elements");
    UP v(new E(id));
    bool ok;
    if constexpr (has_try_push<Q>::value) ok = q->try_push(std::move(v));
    else {
      q->push(std::move(v));
      ok = true;
    }
    int stored = hi - lo;
    if (!ok && (sh.refuse_at < 0 || (sh.accept_below >= 0 && stored < sh.accept_below) || (sh.accept_below < 0 && stored < sh.refuse_at)))
      fail("ORACLE", "push of element %d refused with %d values stored (must be accepted below %d)", id, stored, sh.accept_below >= 0 ? sh.accept_below : sh.refuse_at);
    if (ok && sh.refuse_at >= 0 && stored >= sh.refuse_at) fail("ORACLE", "push of element %d accepted with %d values stored (capacity %d)", id, stored, sh.refuse_at);
    if (ok) {
      if (v) fail("OWNERSHIP", "accepted element %d left with the caller as well", id);
      ref[hi++] = id;
    } else if (v && (v->id != id || cell_get(ALIVE + id) != 1))
      fail("OWNERSHIP", "refused element %d came back damaged", id);
    else if (!v && forwarding_push<Q>::value)
      fail("OWNERSHIP", "refused push (forwarding interface) did not leave element %d with the caller", id);
    return ok;
  };
  auto pop = [&]() -> bool {
    UP v;
    bool ok;
    bool use_opt = (seq++ & 1) != 0;
    if constexpr (has_pop<Q>::value) {
      if (use_opt) {
        auto r = q->pop();
        ok = r.has_value();
        if (ok) v = std::move(*r);
      } else
        ok = q->try_pop(v);
    } else
      ok = q->try_pop(v);
    int stored = hi - lo;
    if (!ok) {
      if (stored != 0) fail("ORACLE", "pop reports empty with %d values stored and nothing running concurrently", stored);
      return false;
    }
    if (stored == 0) fail("ORACLE", "pop returned a value from an empty queue");
    if (!v) fail("OWNERSHIP", "successful pop returned an empty unique_ptr");
    int id = v->id;
    if (id <= 0 || id >= 1900 || cell_get(ALIVE + id) != 1 || v->payload != id * 7 + 3) fail("OWNERSHIP", "pop returned a dead or damaged element (%d)", id);
    int lim = stored < sh.k ? stored : sh.k;
    int at = -1;
    for (int i = 0; i < lim; i++)
      if (ref[lo + i] == id) at = lo + i;
    if (at < 0) fail("ORACLE", "pop returned %d, which is not among the %d oldest of the %d stored values (oldest is %d)", id, sh.k, stored, ref[lo]);
    for (int i = at; i > lo; i--) ref[i] = ref[i - 1];
    lo++;
    return true;
  };
  auto push_batch = [&](int n) {
    // (a long row of refused pushes re-reads unchanged indexes and would be taken for a busy-wait loop: three refusals suffice)
    for (int i = 0, refused = 0; i < n && refused < 3; i++) refused += !push();
  };
  for (int lap = 0; lap < laps; lap++) {
    if (hi > 900) {
      for (int i = lo; i < hi; i++) ref[i - lo] = ref[i];
      hi -= lo;
      lo = 0;
    }
    push_batch(n1);
    int t = take == 0 ? 0 : take == 1 ? n1 / 2 : n1 + 1;
    for (int i = 0; i < t; i++)
      if (!pop()) break;
    push_batch(second == 0 ? 0 : second == 1 ? n1 / 2 + 1 : n1 + 3);
    bool last = lap + 1 == laps;
    while (hi - lo > (last ? rest : 0))
      if (!pop()) break;
    if (!last) {
      pop(); // must report empty
      push();
      pop();
    }
  }
  mark_nontrivial();
  delete q;
  for (int id = 1; id < next; id++) {
    long d = cell_get(DTOR + id);
    if (d == 0) fail("LEAK", "element %d was never destroyed", id);
    if (d > 1) fail("DOUBLE_DESTROY", "element %d was destroyed %ld times", id, d);
  }
}

namespace xp = xenium::policy;
using R1 = rec::HPs<3>;
using R2 = rec::EBR;

template <class Q>
void sweep_unbounded() {
  sweep_run(new Q(), Shape{}, 1);
}
template <class Q>
void sweep_nb() { // nikolaev_bounded_queue: capacity is rounded up to a power of two
  const int cap = 1 + choose((int)opt("maxcap", 40));
  Q* q = new Q(cap);
  int expect = 1;
  while (expect < cap) expect <<= 1;
  if ((int)q->capacity() != expect) fail("ORACLE", "capacity() = %d for a requested capacity of %d (expected %d)", (int)q->capacity(), cap, expect);
  Shape sh;
  sh.refuse_at = expect;
  sweep_run(q, sh, 1);
}
template <class Q>
void sweep_vb() { // vyukov_bounded_queue: sizes 2, 4, ..., 64
  const int cap = 2 << choose((int)opt("maxlog", 5));
  Shape sh;
  sh.refuse_at = cap;
  sweep_run(new Q(cap), sh, 1);
}
template <class Q>
void sweep_kb() {
  const int k = 1 + choose((int)opt("maxk", 5)), segs = 1 + choose((int)opt("maxsegs", 5));
  Shape sh;
  sh.k = k;
  sh.accept_below = (segs - 1) * k + 1;
  sh.refuse_at = segs * k;
  sweep_run(new Q(k, segs), sh, k);
}
template <class Q>
void sweep_kf() {
  const int k = 1 + choose((int)opt("maxk", 5));
  Shape sh;
  sh.k = k;
  sweep_run(new Q(k), sh, k);
}

#define SW(name, fn, Q, desc) XMC_TEST_FN(name, (&fn<Q>), desc)
#define COMMA ,
SW("ms_hp", sweep_unbounded, xenium::michael_scott_queue<UP COMMA xp::reclaimer<R1>>, "michael_scott_queue");
SW("ram_e4_hp", sweep_unbounded, xenium::ramalhete_queue<UP COMMA xp::reclaimer<R1> COMMA xp::entries_per_node<4> COMMA xp::pop_retries<1>>, "ramalhete e=4");
SW("ram_e8_ebr", sweep_unbounded, xenium::ramalhete_queue<UP COMMA xp::reclaimer<R2> COMMA xp::entries_per_node<8> COMMA xp::pop_retries<0>>, "ramalhete e=8");
SW("ram_e3_hp", sweep_unbounded, xenium::ramalhete_queue<UP COMMA xp::reclaimer<R1> COMMA xp::entries_per_node<3> COMMA xp::pop_retries<0>>, "ramalhete e=3");
SW("nik_e4_hp", sweep_unbounded, xenium::nikolaev_queue<UP COMMA xp::reclaimer<R1> COMMA xp::entries_per_node<4> COMMA xp::pop_retries<1>>, "nikolaev e=4");
SW("nik_e8_ebr", sweep_unbounded, xenium::nikolaev_queue<UP COMMA xp::reclaimer<R2> COMMA xp::entries_per_node<8> COMMA xp::pop_retries<0>>, "nikolaev e=8 (SCQ remapping)");
SW("nik_e16_hp", sweep_unbounded, xenium::nikolaev_queue<UP COMMA xp::reclaimer<R1> COMMA xp::entries_per_node<16> COMMA xp::pop_retries<1>>, "nikolaev e=16 (SCQ remapping)");
SW("nik_e32_hp", sweep_unbounded, xenium::nikolaev_queue<UP COMMA xp::reclaimer<R1> COMMA xp::entries_per_node<32> COMMA xp::pop_retries<1>>, "nikolaev e=32 (SCQ remapping)");
SW("nb", sweep_nb, xenium::nikolaev_bounded_queue<UP COMMA xp::pop_retries<1>>, "nikolaev_bounded_queue, capacities 1..40 (rounded up)");
SW("nb_p0", sweep_nb, xenium::nikolaev_bounded_queue<UP COMMA xp::pop_retries<0>>, "nikolaev_bounded_queue pop_retries<0>");
SW("vb", sweep_vb, xenium::vyukov_bounded_queue<UP>, "vyukov_bounded_queue, sizes 2..64");
SW("kb", sweep_kb, xenium::kirsch_bounded_kfifo_queue<UP>, "kirsch_bounded_kfifo_queue, k 1..5 x segments 1..5");
SW("kf_hp", sweep_kf, xenium::kirsch_kfifo_queue<UP COMMA xp::reclaimer<R1>>, "kirsch_kfifo_queue, k 1..5");
SW("kf_ebr", sweep_kf, xenium::kirsch_kfifo_queue<UP COMMA xp::reclaimer<R2>>, "kirsch_kfifo_queue, k 1..5, EBR");
} // namespace
