// C15 (guard_ptr algebra, acquire snapshot) and C18 (hazard pointer / hazard era slots).
// One thread performs an enumerated sequence of guard operations on G guard variables and 2 cells; a reference
// model of shared ownership says which guard refers to which node, whether the node must be alive, and (for the
// static HP/HE strategies) how many slots are in use, i.e. whether an operation must, may or must not throw.
#include "harness/common.h"

#include <optional>

using namespace xmc;

namespace {
constexpr int ALIVE = 0, DTOR = 10000, NEXTID = 20000, PUBLISHED = 30000;
const char* const kOps[] = {"acquire", "acquire_if_equal", "acquire_if_mismatch", "reset", "copy_assign", "move_assign", "swap", "reclaim", "copy_construct",
                            "from_ptr", "replace_cell", "snapshot_acquire", "snapshot_acquire_if_equal", "hold_K_guards"};
enum { G_ACQUIRE, G_AIE_MATCH, G_AIE_MISMATCH, G_RESET, G_COPY_ASSIGN, G_MOVE_ASSIGN, G_SWAP, G_RECLAIM, G_COPY_CONSTRUCT, G_FROM_PTR, G_REPLACE, G_SNAP_ACQ, G_SNAP_AIE, G_HOLD_K, NGOPS = 10 };

enum SlotRule { SLOTS_NONE, SLOTS_HP, SLOTS_HE }; // none: never throws; HP: throws iff more than K protecting guards; HE: may share slots

template <class R>
struct GNode : R::template enable_concurrent_ptr<GNode<R>, 1> {
  int id;
  explicit GNode(int i) : id(i) { cell_set(ALIVE + id, 1); }
  ~GNode() {
    cell_add(DTOR + id, 1);
    cell_set(ALIVE + id, 0);
  }
};

template <class R, int K, SlotRule Rule, class Exc>
struct Algebra {
  using Node = GNode<R>;
  using CP = typename R::template concurrent_ptr<Node, 1>;
  using MP = typename CP::marked_ptr;
  using GP = typename CP::guard_ptr;
  static constexpr int MAXG = 8;

  struct Model {
    int held[MAXG];    // node id held by guard i, 0 = empty
    int mark[MAXG];
    int cellnode[3];   // node id published in cell c (cell 2, if used, holds a null pointer with mark 1: node id 0)
    bool retired[128];
    long clock;        // number of retirements so far: hazard eras advance their era clock exactly once per retirement
    long era[MAXG];    // value of `clock` when guard i obtained its protection (guards with different eras cannot share a slot)
    int protecting() const {
      int n = 0;
      for (int i = 0; i < MAXG; i++) n += held[i] != 0;
      return n;
    }
  };

  static Node* make() { return new Node((int)cell_add(NEXTID, 1)); }

  static void run() {
    set_op_names(kOps, 14);
    const int G = (int)opt("guards", 2), D = (int)opt("depth", 3), fill = (int)opt("fill", 0);
    const long mask = opt("ops", 0x3ff);
    const int gens = (int)opt("gens", 1);
    cell_set(NEXTID, 0);
    // --opt nullcell=1: a third cell holds (nullptr, mark 1) - the snapshot a traversal takes of the next pointer of a
    // logically deleted last node.  A guard holding it protects nothing but is not "empty" in the sense of operator bool
    // of its marked_ptr (seed C15d: constructor and destructor disagreed on which of the two decides)
    const int NC = opt("nullcell", 0) ? 3 : 2;
    auto cmark = [](int c) { return c == 0 ? 0 : 1; };
    CP* cells = new CP[3];
    cells[2].store(MP(nullptr, 1), std::memory_order_relaxed);
    Node* nodes[128] = {nullptr};
    Model md{};
    for (int c = 0; c < 2; c++) {
      Node* n = make();
      nodes[n->id] = n;
      cells[c].store(MP(n, c), std::memory_order_relaxed); // cell 1 carries mark 1
      md.cellnode[c] = n->id;
    }
    mark_nontrivial();
    for (int gen = 0; gen < gens; gen++) {
      auto body = [&] {
        std::optional<GP> g[MAXG];
        for (int i = 0; i < G; i++) g[i].emplace();
        for (int i = 0; i < MAXG; i++) md.held[i] = 0, md.mark[i] = 0;
        auto check_all = [&](const char* after) {
          for (int i = 0; i < G; i++) {
            GP& x = *g[i];
            int id = md.held[i];
            if (id == 0) {
              if (x.get() != nullptr) fail("ALGEBRA", "after %s: guard %d should be empty but holds a pointer", after, i);
              if ((int)x.mark() != md.mark[i]) fail("ALGEBRA", "after %s: guard %d holds a null pointer with mark %d, expected mark %d", after, i, (int)x.mark(), md.mark[i]);
              continue;
            }
            if (x.get() != nodes[id]) fail("ALGEBRA", "after %s: guard %d does not refer to node %d", after, i, id);
            if ((int)x.mark() != md.mark[i]) fail("ALGEBRA", "after %s: guard %d has mark %d, expected %d", after, i, (int)x.mark(), md.mark[i]);
            if (!x) fail("ALGEBRA", "after %s: non-empty guard %d converts to false", after, i);
            if (cell_get(ALIVE + id) != 1 || cell_get(DTOR + id) != 0) fail("GUARD", "after %s: node %d held by guard %d was destroyed", after, id, i);
            if (x->id != id) fail("GUARD", "after %s: node %d held by guard %d was overwritten", after, id, i);
          }
        };
        // expected outcome of an operation that turns guard `target` from empty into non-empty
        auto expect = [&](int new_protecting, int target = -1) {
          // returns: +1 must throw, 0 may throw, -1 must not throw
          if (Rule == SLOTS_NONE) return -1;
          if (new_protecting <= K) return -1;
          if (Rule == SLOTS_HP) return +1;
          // hazard eras: guards of the same era may share a slot, guards of different eras cannot.  If the other
          // guards already hold K distinct eras, none of which is the current one, all K slots are taken by them
          // and a guard that needs protection in the current era MUST be refused (C18: "raises instead of
          // proceeding unprotected"); otherwise sharing may or may not succeed.
          if (target >= 0 && opt("he_must_throw", 1)) {
            long eras[MAXG];
            int ne = 0;
            bool cur = false;
            for (int j = 0; j < G; j++) {
              if (j == target || md.held[j] == 0) continue;
              if (md.era[j] == md.clock) cur = true;
              bool dup = false;
              for (int k = 0; k < ne; k++) dup |= eras[k] == md.era[j];
              if (!dup) eras[ne++] = md.era[j];
            }
            if (ne >= K && !cur) return +1;
          }
          return 0;
        };
        auto guarded = [&](const char* what, int expectation, auto&& action, auto&& commit) {
          bool threw = false;
          try {
            action();
          } catch (const Exc&) {
            threw = true;
          }
          if (threw && expectation < 0) fail("SLOTS", "%s threw although only %d of %d slots are needed", what, md.protecting(), K);
          if (!threw && expectation > 0) fail("SLOTS", "%s did not throw although it needs more than the %d available slots", what, K);
          if (!threw) commit();
          return threw;
        };
        // after a refused acquire the guard may keep what it had (and then still protects it) or be empty
        auto after_refusal = [&](int i) {
          if (g[i]->get() == nullptr) {
            // (a guard that held a marked null pointer may keep it: then the mark stays what it was)
            if (!(md.held[i] == 0 && (int)g[i]->mark() == md.mark[i])) md.mark[i] = 0;
            md.held[i] = 0;
          }
        };
        for (int i = 0; i < fill && i < G; i++) {
          g[i]->acquire(cells[0], std::memory_order_acquire);
          md.held[i] = md.cellnode[0];
          md.mark[i] = 0;
          md.era[i] = md.clock;
        }
        if (opt("altfill", 0) && G >= 2) {
          // guards 0 and 1 start on different nodes with different protection: guard 0 acquires cell 0, then the
          // node of cell 1 is replaced (so that it is younger than guard 0's slot / era), then guard 1 acquires cell 1
          g[0]->acquire(cells[0], std::memory_order_acquire);
          md.held[0] = md.cellnode[0];
          md.mark[0] = 0;
          md.era[0] = md.clock;
          for (int churn = 0; churn < 2; churn++) { // twice: the second node is constructed after a retirement (a later era)
            Node* n = make();
            nodes[n->id] = n;
            GP t;
            t.acquire(cells[1], std::memory_order_acquire);
            int old = md.cellnode[1];
            cells[1].store(MP(n, 1), std::memory_order_release);
            md.cellnode[1] = n->id;
            t.reclaim();
            md.retired[old] = true;
            md.clock++;
          }
          g[1]->acquire(cells[1], std::memory_order_acquire);
          md.held[1] = md.cellnode[1];
          md.mark[1] = 1;
          md.era[1] = md.clock;
        }
        check_all("fill");
        for (int step = 0; step < D; step++) {
          int alpha[NGOPS], na = 0;
          for (int o = 0; o < NGOPS; o++)
            if (mask & (1 << o)) alpha[na++] = o;
          int op = alpha[choose(na)];
          int i = choose(G), j = 0, c = 0;
          if (op == G_COPY_ASSIGN || op == G_MOVE_ASSIGN) j = choose(G);
          if (op == G_SWAP) {
            j = choose(G);
            if (j <= i) prune();
          }
          if (op == G_ACQUIRE || op == G_AIE_MATCH || op == G_AIE_MISMATCH || op == G_FROM_PTR) c = choose(NC);
          op_begin(op, i, op == G_COPY_ASSIGN || op == G_MOVE_ASSIGN || op == G_SWAP ? j : c);
          const char* name = kOps[op];
          switch (op) {
            case G_ACQUIRE: {
              int target = md.cellnode[c];
              int newp = md.protecting() + (md.held[i] == 0 && target != 0 ? 1 : 0) - (md.held[i] != 0 && target == 0 ? 1 : 0);
              bool threw = guarded(name, target == 0 ? -1 : expect(newp, i), [&] { g[i]->acquire(cells[c], std::memory_order_acquire); },
                                   [&] {
                                     md.held[i] = target;
                                     md.mark[i] = cmark(c);
                                     md.era[i] = md.clock;
                                   });
              if (threw) after_refusal(i);
              break;
            }
            case G_AIE_MATCH: {
              int target = md.cellnode[c];
              int newp = md.protecting() + (md.held[i] == 0 && target != 0 ? 1 : 0) - (md.held[i] != 0 && target == 0 ? 1 : 0);
              bool ok = false;
              if (guarded(name, target == 0 ? -1 : expect(newp, i), [&] { ok = g[i]->acquire_if_equal(cells[c], MP(nodes[target], cmark(c)), std::memory_order_acquire); },
                          [&] {
                            if (!ok) fail("ALGEBRA", "acquire_if_equal returned false although the cell holds the expected value");
                            md.held[i] = target;
                            md.mark[i] = cmark(c);
                            md.era[i] = md.clock;
                          }))
                after_refusal(i);
              break;
            }
            case G_AIE_MISMATCH: {
              bool ok = true;
              // expected value differs in the mark only / in the pointer
              MP expected = choose(2) ? MP(nodes[md.cellnode[c]], 1 - cmark(c)) : MP(nodes[md.cellnode[c == 0 ? 1 : 0]], cmark(c));
              guarded(name, -1 + 0 * expect(0), [&] { ok = g[i]->acquire_if_equal(cells[c], expected, std::memory_order_acquire); },
                      [&] {
                        if (ok) fail("ALGEBRA", "acquire_if_equal returned true although the cell holds a different value");
                        md.held[i] = 0; // "leaves the guard empty otherwise"
                        md.mark[i] = 0;
                      });
              break;
            }
            case G_RESET:
              g[i]->reset();
              g[i]->reset(); // double reset is harmless
              md.held[i] = 0;
              md.mark[i] = 0;
              break;
            case G_COPY_ASSIGN: {
              int newp = md.protecting() + ((md.held[i] == 0 && md.held[j] != 0) ? 1 : 0);
              if (guarded(name, expect(newp), [&] { *g[i] = *g[j]; },
                          [&] {
                            md.held[i] = md.held[j];
                            md.mark[i] = md.mark[j];
                            md.era[i] = md.era[j];
                          }))
                after_refusal(i);
              break;
            }
            case G_MOVE_ASSIGN:
              *g[i] = std::move(*g[j]);
              if (i != j) {
                md.held[i] = md.held[j];
                md.mark[i] = md.mark[j];
                md.era[i] = md.era[j];
                md.held[j] = 0;
                md.mark[j] = 0;
              }
              break;
            case G_SWAP:
              g[i]->swap(*g[j]);
              std::swap(md.held[i], md.held[j]);
              std::swap(md.mark[i], md.mark[j]);
              std::swap(md.era[i], md.era[j]);
              break;
            case G_RECLAIM: {
              // protocol: retire only what this sequence has unlinked itself: if the node is still published, replace it first
              int id = md.held[i];
              if (id == 0 || md.retired[id]) prune();
              for (int cc = 0; cc < 2; cc++)
                if (md.cellnode[cc] == id) {
                  Node* n = make();
                  nodes[n->id] = n;
                  cells[cc].store(MP(n, cc), std::memory_order_release);
                  md.cellnode[cc] = n->id;
                }
              g[i]->reclaim();
              md.retired[id] = true;
              md.clock++;
              md.held[i] = 0;
              md.mark[i] = 0;
              break;
            }
            case G_COPY_CONSTRUCT: {
              int newp = md.protecting() + (md.held[i] != 0 ? 1 : 0);
              guarded(name, expect(newp),
                      [&] {
                        GP tmp(*g[i]);
                        if (tmp.get() != g[i]->get() || tmp.mark() != g[i]->mark()) fail("ALGEBRA", "copy-constructed guard differs from its source");
                        GP tmp2(std::move(tmp));
                        if (tmp.get() != nullptr) fail("ALGEBRA", "moved-from guard is not empty");
                        if (tmp2.get() != g[i]->get()) fail("ALGEBRA", "move-constructed guard differs from its source");
                      },
                      [&] {});
              break;
            }
            case G_FROM_PTR: {
              int target = md.cellnode[c];
              int newp = md.protecting() + (md.held[i] == 0 ? 1 : 0) + 0;
              if (target == 0) { // a guard constructed from (nullptr, mark) needs no slot; copies of it neither
                GP tmp{MP(nullptr, 1)};
                GP cp(tmp);
                if (cp.get() != nullptr || cp.mark() != 1 || tmp.mark() != 1) fail("ALGEBRA", "copy of a guard holding a marked null pointer differs from its source");
                *g[i] = std::move(tmp);
                md.held[i] = 0;
                md.mark[i] = 1;
                break;
              }
              // construct a fresh guard from a raw marked pointer (legal: the node is published and cannot go away
              // while this single thread is the only one that retires), then move it into guard i
              guarded(name, md.held[i] == 0 ? expect(newp) : expect(md.protecting() + 1),
                      [&] {
                        GP tmp{MP(nodes[target], cmark(c))};
                        *g[i] = std::move(tmp);
                      },
                      [&] {
                        md.held[i] = target;
                        md.mark[i] = cmark(c);
                        md.era[i] = md.clock;
                      });
              break;
            }
          }
          op_end();
          check_all(name);
        }
        // storm: unlink and retire whatever is published (each retirement scans: threshold 0); every node that a guard
        // still refers to must survive, however the guard came by its protection
        if (opt("storm", 1)) {
          op_begin(G_REPLACE, 0, 0);
          for (int cc = 0; cc < 2; cc++) {
            try {
              GP t;
              t.acquire(cells[cc], std::memory_order_acquire);
              Node* n = make();
              nodes[n->id] = n;
              int old = md.cellnode[cc];
              cells[cc].store(MP(n, cc), std::memory_order_release);
              md.cellnode[cc] = n->id;
              t.reclaim();
              md.retired[old] = true;
              md.clock++;
            } catch (const Exc&) {
            }
          }
          // epoch based schemes reclaim only after the epoch has advanced twice: a few more critical regions and retirements
          // (a thread whose guards still hold nodes stays in its critical region and blocks the advance - unless the
          // bookkeeping of nested critical regions has been corrupted)
          for (int r = 0; r < (int)opt("stormflush", 6); r++) {
            try {
              typename R::region_guard rg;
              Node* d = make();
              const int did = d->id;
              nodes[did] = d;
              GP t{MP(d, 0)};
              t.reclaim();
              md.retired[did] = true;
              md.clock++;
            } catch (const Exc&) {
            }
          }
          op_end();
          check_all("the final unlink-and-retire storm");
        }
        // N x (acquire, release) never exhausts the slots
        for (int i = 0; i < G; i++) g[i]->reset();
        for (int r = 0; r < (K > 8 ? 8 : 2 * K + 3); r++) {
          try {
            g[0]->acquire(cells[r & 1], std::memory_order_acquire);
            g[0]->reset();
          } catch (const Exc&) {
            fail("SLOTS", "repeated acquire/reset exhausted the slots in round %d", r);
          }
        }
        // all K slots are usable at the same time
        if (Rule != SLOTS_NONE && G >= K) {
          try {
            for (int i = 0; i < K && i < G; i++) g[i]->acquire(cells[i & 1], std::memory_order_acquire);
          } catch (const Exc&) {
            fail("SLOTS", "could not hold %d protecting guards at the same time although K = %d", K, K);
          }
        }
        for (int i = 0; i < G; i++) g[i].reset();
      };
      if (gens == 1) body();
      else {
        spawn(body); // every generation is a fresh thread: control blocks (and their slots) are reused
        join_all();
      }
    }
    // Conservation: every guard has been reset or destroyed, so whatever protection the operations above shared,
    // transferred or gave back, nothing may be left of it - after the last two nodes are unlinked and retired and a
    // flush through the public API, every retired node must have been destroyed exactly once (a leaked reference count,
    // slot or critical region keeps a node alive for ever).
    if (opt("census", 1)) {
      for (int cc = 0; cc < 2; cc++) {
        GP t;
        t.acquire(cells[cc], std::memory_order_acquire);
        cells[cc].store(MP(nullptr, cc), std::memory_order_release);
        if (!t) continue;
        const int old = t->id;
        t.reclaim();
        md.retired[old] = true;
      }
      auto pending = [&] {
        int n = 0;
        for (int id = 1; id < 128; id++) n += md.retired[id] && cell_get(DTOR + id) == 0;
        return n;
      };
      for (int r = 0; r < 12 + 6 * gens && pending(); r++) {
        typename R::region_guard rg;
        Node* d = make();
        GP t{MP(d, 0)};
        t.reclaim();
      }
      for (int id = 1; id < 128; id++) {
        if (!md.retired[id]) continue;
        if (cell_get(DTOR + id) == 0) fail("LEAK", "node %d was retired and no guard refers to it any more, but it was not destroyed after the flush", id);
        if (cell_get(DTOR + id) != 1) fail("DOUBLE_DESTROY", "node %d was destroyed %ld times", id, cell_get(DTOR + id));
      }
    }
    delete[] cells;
  }
};

// ---- C15: acquire / acquire_if_equal return a snapshot the source actually held during the call
struct SnapSpec {
  long cur = 2; // value currently published, encoded as 2 * node id + mark (node 1, mark 0 initially)
  bool apply(const Event& e) {
    switch (e.op) {
      case G_REPLACE: cur = e.a0; return true;
      case G_SNAP_ACQ: return e.r0 == cur;
      case G_SNAP_AIE: // a0 = expected id; r0 = result, r1 = id held afterwards (0 = empty)
        if (e.r0) return cur == e.a0 && e.r1 == e.a0;
        return cur != e.a0 && e.r1 == 0;
      default: return true;
    }
  }
  uint64_t hash() const { return (uint64_t)cur; }
};

template <class R, int K, class Exc>
void snapshot_test() {
  set_op_names(kOps, 14);
  using Node = GNode<R>;
  using CP = typename R::template concurrent_ptr<Node, 1>;
  using MP = typename CP::marked_ptr;
  using GP = typename CP::guard_ptr;
  const int reps = (int)opt("replaces", 2), acqs = (int)opt("acquires", 2);
  cell_set(NEXTID, 0);
  CP* cell = new CP;
  Node* first = new Node((int)cell_add(NEXTID, 1));
  cell->store(MP(first), std::memory_order_relaxed);
  cell_set(PUBLISHED + 1, 1);
  Node** all = new Node*[16]();
  all[1] = first;
  for (int i = 0; i < reps; i++) {
    Node* n = new Node((int)cell_add(NEXTID, 1));
    all[n->id] = n;
  }
  // values in the history are encoded as 2 * node id + mark
  auto enc = [=](MP p) {
    if (p.get() == nullptr) return 0;
    int id = 0;
    for (int k = 1; k < 16; k++)
      if (all[k] == p.get()) id = k;
    return id ? 2 * id + (int)p.mark() : 0;
  };
  const bool flips = opt("flips", 1) != 0;
  spawn([=] { // keeps changing the source: a new node, or only the mark of the node that is there
    int next = 2;
    for (int i = 0; i < reps; i++) {
      int kind = flips ? choose(2) : 0;
      GP g;
      if (kind == 0) {
        Node* n = all[next++];
        op_begin(G_REPLACE, 2 * n->id);
        for (;;) {
          g.acquire(*cell, std::memory_order_acquire);
          MP expected(g);
          if (cell->compare_exchange_strong(expected, MP(n), std::memory_order_acq_rel, std::memory_order_relaxed)) break;
        }
        cell_set(PUBLISHED + n->id, 1);
        op_end();
        g.reclaim();
      } else {
        g.acquire(*cell, std::memory_order_acquire);
        MP expected(g), desired(g.get(), g.mark() ^ 1);
        op_begin(G_REPLACE, enc(desired));
        if (!cell->compare_exchange_strong(expected, desired, std::memory_order_acq_rel, std::memory_order_relaxed))
          fail("ENGINE", "the only writer lost a CAS");
        op_end();
      }
    }
  });
  spawn([=] {
    for (int i = 0; i < acqs; i++) {
      int kind = choose(flips ? 4 : 3); // acquire | acquire_if_equal(value read before) | (first node: soon stale) | (value read before, other mark)
      if (kind == 0) {
        GP g;
        op_begin(G_SNAP_ACQ);
        g.acquire(*cell, std::memory_order_acquire);
        int id = g ? g->id : 0;
        op_end(enc(MP(g)));
        if (g && (cell_get(ALIVE + id) != 1)) fail("GUARD", "acquire returned node %d which is already destroyed", id);
      } else {
        MP expected = kind == 2 ? MP(all[1]) : cell->load(std::memory_order_acquire);
        if (kind == 3) expected = MP(expected.get(), expected.mark() ^ 1);
        // note: `expected` may refer to a node that is retired meanwhile; only its address is used
        GP g;
        op_begin(G_SNAP_AIE, enc(expected));
        bool ok = g.acquire_if_equal(*cell, expected, std::memory_order_acquire);
        op_end(ok, enc(MP(g)));
        if (!ok && g) fail("ALGEBRA", "acquire_if_equal returned false but left the guard non-empty");
        if (ok && MP(g) != expected) fail("ALGEBRA", "acquire_if_equal returned true but the guard differs from the expected value");
        if (!ok && K > 0) {
          // C18: the guard is empty now, so it must not occupy a slot: all K slots are available to this thread
          // (pointer-based slots only: guards of one hazard era would share an entry anyway)
          op_begin(G_HOLD_K);
          try {
            GP h[K > 0 ? K : 1];
            for (int k = 0; k < K; k++) h[k].acquire(*cell, std::memory_order_acquire);
          } catch (const Exc&) {
            fail("SLOTS", "after a refused acquire_if_equal the empty guard still occupies a slot: %d guards cannot be held although K = %d", K, K);
          }
          op_end();
        }
      }
    }
  });
  join_all();
  lin::require_linearizable(SnapSpec{}, "an atomic pointer cell (acquire = snapshot)");
  { // cleanup through the protocol
    GP g;
    g.acquire(*cell, std::memory_order_acquire);
    cell->store(MP(), std::memory_order_release);
    g.reclaim();
  }
  // Conservation (C15: guards share and give back protection like shared-ownership smart pointers): every guard is gone,
  // every node was unlinked and retired - after a flush through the public API each must have been destroyed exactly
  // once.  A reference count, slot or critical region that an acquire / acquire_if_equal kept on one of its retries
  // (seed C15e: lock_free_ref_count::acquire re-tried without giving back the reference it had taken) shows up here.
  if (opt("census", 1)) {
    const int created = (int)cell_get(NEXTID);
    for (int id = 1; id <= created; id++) { // nodes the writer never got to publish go through the protocol as well
      if (cell_get(PUBLISHED + id)) continue;
      cell->store(MP(all[id]), std::memory_order_release);
      GP g;
      g.acquire(*cell, std::memory_order_acquire);
      cell->store(MP(), std::memory_order_release);
      g.reclaim();
    }
    auto pending = [&] {
      int n = 0;
      for (int id = 1; id <= created; id++) n += cell_get(DTOR + id) == 0;
      return n;
    };
    for (int r = 0; r < 30 && pending(); r++) {
      typename R::region_guard rg;
      Node* d = new Node(100 + r);
      GP t{MP(d)};
      t.reclaim();
    }
    for (int id = 1; id <= created; id++) {
      if (cell_get(DTOR + id) == 0) fail("LEAK", "node %d was unlinked and retired, no guard refers to it, but it was not destroyed after the flush", id);
      if (cell_get(DTOR + id) != 1) fail("DOUBLE_DESTROY", "node %d was destroyed %ld times", id, cell_get(DTOR + id));
    }
  }
  delete cell;
}
// ---- C18 / C17: control block reuse with many guards.  Generation after generation a fresh thread adopts the control block of
// its predecessor, holds n guards on n distinct nodes at the same time (dynamic strategies: more than the block has slots,
// so additional blocks are allocated and - in later generations - re-initialised), the nodes are unlinked and retired
// (threshold 0: every retirement scans), and the guards are released one by one in an enumerated order, with a scan after
// every release: every node a remaining guard refers to must be alive, whatever slots the earlier generations used and in
// whatever order they released them.  Static strategies: n <= K must work in every generation, K+1 must be refused.
template <class R, int K, class Exc>
void reuse_test() {
  set_op_names(kOps, 14);
  using Node = GNode<R>;
  using CP = typename R::template concurrent_ptr<Node, 1>;
  using MP = typename CP::marked_ptr;
  using GP = typename CP::guard_ptr;
  const int gens = (int)opt("gens", 2), maxn = (int)opt("maxn", K > 0 ? K : 6);
  const bool eras = opt("eras", 0) != 0;
  constexpr int NCELL = 12;
  cell_set(NEXTID, 0);
  CP* cells = new CP[NCELL];
  for (int c = 0; c < NCELL; c++) cells[c].store(MP(new Node((int)cell_add(NEXTID, 1)), 0), std::memory_order_relaxed);
  static int n_of[4], order_of[4];
  for (int g = 0; g < gens; g++) {
    n_of[g] = 1 + choose(maxn);
    order_of[g] = choose(3); // release order: 0 acquisition order, 1 reverse, 2 even positions first
  }
  mark_nontrivial();
  for (int gen = 0; gen < gens; gen++) {
    spawn([=] {
      const int n = n_of[gen];
      op_begin(G_HOLD_K, n, order_of[gen]);
      std::optional<GP> h[NCELL];
      int ids[NCELL];
      for (int i = 0; i < n; i++) {
        h[i].emplace();
        if (eras) {
          // every guard in an era of its own, on a node born in that era: the node in cell i is replaced (its retirement
          // advances the era clock) right before guard i is taken, so node i is younger than the eras of all earlier
          // guards - once the later guards are gone (release order 1) only guard i's own slot covers it.  Hazard eras
          // share a slot between guards of one era: without this all n guards of a generation use a single slot and the
          // pool never grows (seed C18d: the second growth wiped the slots of the first).
          try {
            GP t;
            t.acquire(cells[i], std::memory_order_acquire);
            cells[i].store(MP(new Node((int)cell_add(NEXTID, 1)), 0), std::memory_order_release);
            t.reclaim();
          } catch (const Exc&) {
            fail("SLOTS", "generation %d: temporary guard next to %d held guards refused (K = %d)", gen, i, K);
          }
        }
        try {
          h[i]->acquire(cells[i], std::memory_order_acquire);
        } catch (const Exc&) {
          fail("SLOTS", "generation %d: guard %d of %d could not be acquired (K = %d)", gen, i + 1, n, K);
        }
        ids[i] = (*h[i])->id;
      }
      if (K > 0 && n == K) { // one more protecting guard must be refused, and the refusal must leave the others intact
        bool threw = false;
        try {
          GP extra;
          extra.acquire(cells[n], std::memory_order_acquire);
        } catch (const Exc&) {
          threw = true;
        }
        if (!threw && std::is_same_v<Exc, xenium::reclamation::bad_hazard_pointer_alloc>) fail("SLOTS", "generation %d: guard %d was granted although K = %d", gen, n + 1, K);
      }
      auto scan_and_check = [&](const char* when, const bool* released) {
        { // a retirement (of a fresh dummy) makes this thread scan
          GP t{MP(new Node((int)cell_add(NEXTID, 1)), 0)};
          t.reclaim();
        }
        for (int i = 0; i < n; i++) {
          if (released[i]) continue;
          if (cell_get(ALIVE + ids[i]) != 1 || cell_get(DTOR + ids[i]) != 0) fail("GUARD", "generation %d, %s: node %d held by guard %d of %d was destroyed", gen, when, ids[i], i + 1, n);
          if ((*h[i])->id != ids[i]) fail("GUARD", "generation %d, %s: node %d held by guard %d was overwritten", gen, when, ids[i], i + 1);
        }
      };
      bool released[NCELL] = {};
      // unlink and retire all n nodes (through temporary guards where a slot is left, else through a released guard later)
      for (int i = 0; i < n; i++) {
        Node* fresh = new Node((int)cell_add(NEXTID, 1));
        cells[i].store(MP(fresh, 0), std::memory_order_release);
      }
      int pos[NCELL], np = 0;
      if (order_of[gen] == 0)
        for (int i = 0; i < n; i++) pos[np++] = i;
      else if (order_of[gen] == 1)
        for (int i = n - 1; i >= 0; i--) pos[np++] = i;
      else {
        for (int i = 0; i < n; i += 2) pos[np++] = i;
        for (int i = 1; i < n; i += 2) pos[np++] = i;
      }
      if (eras) {
        // retire every node through a copy of its guard while the original keeps holding it: from here on only the slot
        // of guard i stands between node i and its destruction
        for (int i = 0; i < n; i++) {
          try {
            GP t(*h[i]);
            t.reclaim();
          } catch (const Exc&) {
            fail("SLOTS", "generation %d: copy of guard %d refused (K = %d)", gen, i + 1, K);
          }
          scan_and_check("after a retirement through a copy", released);
        }
      }
      for (int k = 0; k < np; k++) {
        int i = pos[k];
        if (eras) h[i]->reset();
        else
          h[i]->reclaim(); // the guard's own node is unlinked: retire it through this guard (releases the slot)
        released[i] = true;
        scan_and_check("after a release", released);
      }
      op_end();
    });
    join_all();
  }
  for (int c = 0; c < NCELL; c++) {
    GP g;
    g.acquire(cells[c], std::memory_order_acquire);
    cells[c].store(MP(), std::memory_order_release);
    g.reclaim();
  }
  delete[] cells;
}

namespace xr = xenium::reclamation;
struct NoExc {};
#define REGS(name, R, K, E) XMC_TEST_FN("snap_" name, (&snapshot_test<R, K, E>), "acquire snapshot " name)
REGS("hp", rec::HPs<3>, 3, xr::bad_hazard_pointer_alloc);
REGS("hpd", rec::HPd<1>, 0, NoExc);
REGS("he", rec::HEs<3>, 0, NoExc);
REGS("qsbr", rec::QSBR, 0, NoExc);
REGS("ebr", rec::EBR, 0, NoExc);
REGS("nebr", rec::NEBR, 0, NoExc);
REGS("debra", rec::DEBRA, 0, NoExc);
REGS("stamp", rec::STAMP, 0, NoExc);
REGS("lfrc", rec::LFRC, 0, NoExc);

#define REGA(name, R) XMC_TEST_FN("alg_" name, (&Algebra<R, 1000, SLOTS_NONE, NoExc>::run), "guard algebra " name)
REGA("hpd", rec::HPd<1>);
REGA("hed", rec::HEd<1>);
REGA("qsbr", rec::QSBR);
REGA("ebr", rec::EBR);
REGA("nebr", rec::NEBR);
REGA("debra", rec::DEBRA);
REGA("gebr_lazy", rec::GEBR_LAZY);
REGA("gebr_thr", rec::GEBR_THR);
REGA("stamp", rec::STAMP);
REGA("lfrc", rec::LFRC);
REGA("lfrc_tl", rec::LFRC_TL);
#define REGHP(K) XMC_TEST_FN("slots_hp_k" #K, (&Algebra<rec::HPs<K>, K, SLOTS_HP, xr::bad_hazard_pointer_alloc>::run), "static hazard pointers, K=" #K)
#define REGHE(K) XMC_TEST_FN("slots_he_k" #K, (&Algebra<rec::HEs<K>, K, SLOTS_HE, xr::bad_hazard_era_alloc>::run), "static hazard eras, K=" #K)
REGHP(1);
REGHP(2);
REGHP(3);
REGHP(5);
REGHE(1);
REGHE(2);
REGHE(3);
REGHE(5);
#define REGR(name, R, K, E) XMC_TEST_FN("reuse_" name, (&reuse_test<R, K, E>), "control block reuse with many guards, " name)
REGR("hpd_k1", rec::HPd<1>, 0, NoExc);
REGR("hpd_k2", rec::HPd<2>, 0, NoExc);
REGR("hed_k1", rec::HEd<1>, 0, NoExc);
REGR("hed_k2", rec::HEd<2>, 0, NoExc);
REGR("hp_k3", rec::HPs<3>, 3, xr::bad_hazard_pointer_alloc);
REGR("he_k3", rec::HEs<3>, 3, xr::bad_hazard_era_alloc);
REGR("ebr", rec::EBR, 0, NoExc);
REGR("lfrc", rec::LFRC, 0, NoExc);
XMC_TEST_FN("slots_hpd_k1", (&Algebra<rec::HPd<1>, 1000, SLOTS_NONE, xr::bad_hazard_pointer_alloc>::run), "dynamic hazard pointers never throw");
XMC_TEST_FN("slots_hed_k1", (&Algebra<rec::HEd<1>, 1000, SLOTS_NONE, xr::bad_hazard_era_alloc>::run), "dynamic hazard eras never throw");
} // namespace
