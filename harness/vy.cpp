// C10: vyukov_hash_map is a linearizable map (lock-free reads, bucket overflow into extension items, grow).
// C11: vyukov_hash_map iterators: exclusive traversal, erase(iterator), no lost locks.
#include "harness/common.h"

#include <xenium/vyukov_hash_map.hpp>

#include <string>

using namespace xmc;

namespace {
const char* const kOps[] = {"emplace", "erase", "try_get_value", "find", "get_or_emplace", "extract", "snapshot", "it_begin", "it_next", "it_erase", "it_reset", "it_find", "it_move_assign", "yield"};
enum { O_EMPLACE, O_ERASE, O_TRYGET, O_FIND, O_GET_OR_EMPLACE, O_EXTRACT, O_SNAPSHOT, O_IT_BEGIN, O_IT_NEXT, O_IT_ERASE, O_IT_RESET, O_IT_FIND, O_IT_MOVE_ASSIGN, O_YIELD, NOPS = 6 };
constexpr int NKEYS = 8;

struct MapSpec {
  int val[NKEYS + 2] = {-1, -1, -1, -1, -1, -1, -1, -1, -1, -1};
  bool apply(const Event& e) {
    int k = (int)e.a0;
    switch (e.op) {
      case O_EMPLACE:
        if (e.r0) {
          if (val[k] >= 0) return false;
          val[k] = (int)e.a1;
          return true;
        }
        return val[k] >= 0;
      case O_ERASE:
        if (e.r0) {
          if (val[k] < 0) return false;
          val[k] = -1;
          return true;
        }
        return val[k] < 0;
      case O_EXTRACT:
        if (e.r0) {
          if (val[k] < 0 || val[k] != e.r1) return false;
          val[k] = -1;
          return true;
        }
        return val[k] < 0;
      case O_TRYGET:
      case O_FIND:
        if (e.r0) return val[k] >= 0 && val[k] == e.r1;
        return val[k] < 0;
      case O_GET_OR_EMPLACE:
        if (e.r0) {
          if (val[k] >= 0) return false;
          val[k] = (int)e.r1;
          return true;
        }
        return val[k] >= 0 && val[k] == e.r1;
      case O_SNAPSHOT: {
        long mask = 0, sum = 0;
        for (int i = 0; i < NKEYS + 2; i++)
          if (val[i] >= 0) {
            mask |= 1 << i;
            sum += (long)val[i] * (i + 1);
          }
        return mask == e.r0 && sum == e.r1;
      }
    }
    return false;
  }
  uint64_t hash() const {
    uint64_t h = 0;
    for (int i = 0; i < NKEYS + 2; i++) h = h * 257 + (uint64_t)(val[i] + 1);
    return h;
  }
};

// key maps: harness key index 0..7 -> container key, its hash functor and the bucket (of a 128-bucket map) it lands in
struct HInt {
  std::size_t operator()(int k) const { return (std::size_t)k; }
};
struct HIntConst {
  std::size_t operator()(int) const { return 5; }
};
struct HStrConst {
  std::size_t operator()(const std::string&) const { return 5; }
};
struct HStrMod2 {
  std::size_t operator()(const std::string& s) const { return (std::size_t)(s.back() & 1); }
};
struct KM_I1 { // all keys congruent mod 128: one bucket, overflow into extension items
  using key_type = int;
  using hash = HInt;
  static int key(int k) { return 1 + 128 * k; }
  static int unkey(int x) { return (x - 1) / 128; }
  static int bucket_of(int) { return 0; }
};
struct KM_I2 { // two buckets
  using key_type = int;
  using hash = HInt;
  static int key(int k) { return 1 + (k & 1) + 128 * (k >> 1); }
  static int unkey(int x) { return ((x - 1) / 128) * 2 + ((x - 1) % 128); }
  static int bucket_of(int k) { return k & 1; }
};
struct KM_IC { // constant hash
  using key_type = int;
  using hash = HIntConst;
  static int key(int k) { return k + 1; }
  static int unkey(int x) { return x - 1; }
  static int bucket_of(int) { return 0; }
};
struct KM_S1 {
  using key_type = std::string;
  using hash = HStrConst;
  static std::string key(int k) { return std::string("key-") + char('b' + k); }
  static int unkey(const std::string& s) { return s.back() - 'b'; }
  static int bucket_of(int) { return 0; }
};
struct KM_S2 {
  using key_type = std::string;
  using hash = HStrMod2;
  static std::string key(int k) { return std::string("key-") + char('b' + k); }
  static int unkey(const std::string& s) { return s.back() - 'b'; }
  static int bucket_of(int k) { return k & 1; } // 'b' is even
};

struct HStrSum {
  std::size_t operator()(const std::string& s) const {
    std::size_t h = 0;
    for (char c : s) h = h * 3 + (unsigned char)c;
    return h;
  }
};
struct KM_ID { // keys spread over the buckets
  using key_type = int;
  using hash = HInt;
  static int key(int k) { return k + 1; }
  static int unkey(int x) { return x - 1; }
  static int bucket_of(int k) { return (k + 1) & 127; }
};
struct KM_I4 { // four buckets of a 128-bucket map share the keys: several extension chains
  using key_type = int;
  using hash = HInt;
  static int key(int k) { return 1 + (k & 3) + 128 * (k >> 2); }
  static int unkey(int x) { return ((x - 1) / 128) * 4 + ((x - 1) % 128); }
  static int bucket_of(int k) { return k & 3; }
};
struct KM_SID {
  using key_type = std::string;
  using hash = HStrSum;
  static std::string key(int k) { return std::string("key-") + char('A' + k / 8) + char('a' + k % 8); }
  static int unkey(const std::string& s) { return (s[4] - 'A') * 8 + (s[5] - 'a'); }
  static int bucket_of(int) { return 0; }
};
// storage modes ------------------------------------------------------------------------------------
struct NV { // non-trivial value
  int v;
  std::string pad;
  NV(int x) : v(x), pad("pad") {} // NOLINT
  NV(const NV&) = default;
  NV(NV&&) = default;
  NV& operator=(const NV&) = default;
};

template <class R, class KM>
struct ModeTT { // trivial or non-trivial key (per KM), trivial value
  using Map = xenium::vyukov_hash_map<typename KM::key_type, int, xenium::policy::reclaimer<R>, xenium::policy::hash<typename KM::hash>>;
  static typename KM::key_type key(int k) { return KM::key(k); }
  static int bucket_of(int k) { return KM::bucket_of(k); }
  static bool emplace(Map& m, int k, int v) { return m.emplace(key(k), v); }
  static std::pair<bool, int> get_or_emplace(Map& m, int k, int v) {
    if (k & 1) { // odd keys go through the lazy variant (the factory must run iff the key is inserted)
      int calls = 0;
      auto r = m.get_or_emplace_lazy(key(k), [&calls, v] { calls++; return v; });
      if (calls != (r.second ? 1 : 0)) fail("ORACLE", "get_or_emplace_lazy called the factory %d times, inserted=%d", calls, (int)r.second);
      return {r.second, *r.first};
    }
    auto r = m.get_or_emplace(key(k), v);
    return {r.second, *r.first};
  }
  static std::pair<bool, int> extract(Map& m, int k) {
    typename Map::accessor acc;
    bool ok = m.extract(key(k), acc);
    return {ok, ok ? *acc : 0};
  }
  static std::pair<bool, int> try_get(Map& m, int k) {
    typename Map::accessor acc;
    bool ok = m.try_get_value(key(k), acc);
    return {ok, ok ? *acc : 0};
  }
  template <class It>
  static int it_key(It& it) { return KM::unkey((*it).first); }
  template <class It>
  static int it_val(It& it) { return (*it).second; }
};

template <class R, class KM>
struct ModeTN { // key per KM, non-trivial value
  using Map = xenium::vyukov_hash_map<typename KM::key_type, NV, xenium::policy::reclaimer<R>, xenium::policy::hash<typename KM::hash>>;
  static typename KM::key_type key(int k) { return KM::key(k); }
  static int bucket_of(int k) { return KM::bucket_of(k); }
  static bool emplace(Map& m, int k, int v) { return m.emplace(key(k), NV(v)); }
  static std::pair<bool, int> get_or_emplace(Map& m, int k, int v) {
    if (k & 1) {
      int calls = 0;
      auto r = m.get_or_emplace_lazy(key(k), [&calls, v] { calls++; return NV(v); });
      if (calls != (r.second ? 1 : 0)) fail("ORACLE", "get_or_emplace_lazy called the factory %d times, inserted=%d", calls, (int)r.second);
      return {r.second, (*r.first).v};
    }
    auto r = m.get_or_emplace(key(k), v);
    return {r.second, (*r.first).v};
  }
  static std::pair<bool, int> extract(Map& m, int k) {
    typename Map::accessor acc;
    bool ok = m.extract(key(k), acc);
    return {ok, ok ? (*acc).v : 0};
  }
  static std::pair<bool, int> try_get(Map& m, int k) {
    typename Map::accessor acc;
    bool ok = m.try_get_value(key(k), acc);
    return {ok, ok ? (*acc).v : 0};
  }
  template <class It>
  static int it_key(It& it) { return KM::unkey((*it).first); }
  template <class It>
  static int it_val(It& it) { return (*it).second.v; }
};

template <class R>
struct MNode : R::template enable_concurrent_ptr<MNode<R>> {
  int v;
  explicit MNode(int x) : v(x) {}
};

template <class R, class KM>
struct ModeTM { // key per KM, managed_ptr value
  using Node = MNode<R>;
  using Map = xenium::vyukov_hash_map<typename KM::key_type, xenium::managed_ptr<Node, R>, xenium::policy::reclaimer<R>, xenium::policy::hash<typename KM::hash>>;
  static typename KM::key_type key(int k) { return KM::key(k); }
  static int bucket_of(int k) { return KM::bucket_of(k); }
  static bool emplace(Map& m, int k, int v) {
    Node* n = new Node(v);
    bool ok = m.emplace(key(k), n);
    if (!ok) delete n;
    return ok;
  }
  static std::pair<bool, int> get_or_emplace(Map& m, int k, int v) {
    if (k & 1) {
      int calls = 0;
      auto r = m.get_or_emplace_lazy(key(k), [&calls, v] { calls++; return new Node(v); });
      if (calls != (r.second ? 1 : 0)) fail("ORACLE", "get_or_emplace_lazy called the factory %d times, inserted=%d", calls, (int)r.second);
      return {r.second, r.first->v};
    }
    Node* n = new Node(v);
    auto r = m.get_or_emplace(key(k), n);
    int seen = r.first->v;
    if (!r.second) delete n;
    return {r.second, seen};
  }
  static std::pair<bool, int> extract(Map& m, int k) {
    typename Map::accessor acc;
    bool ok = m.extract(key(k), acc);
    int v = ok ? acc->v : 0;
    if (ok) {
      // the extracted value is ours now: retire it (the non-trivial-key accessor has no reclaim(), so go through a guard)
      Node* n = acc.operator->();
      acc.reset();
      typename R::template concurrent_ptr<Node>::guard_ptr g{typename R::template concurrent_ptr<Node>::marked_ptr(n)};
      g.reclaim();
    }
    return {ok, v};
  }
  static std::pair<bool, int> try_get(Map& m, int k) {
    typename Map::accessor acc;
    bool ok = m.try_get_value(key(k), acc);
    return {ok, ok ? acc->v : 0};
  }
  template <class It>
  static int it_key(It& it) { return KM::unkey((*it).first); }
  template <class It>
  static int it_val(It& it) { return (*it).second->v; }
};

// ---------------------------------------------------------------------------------------------------
template <class M>
struct Runner {
  using Map = typename M::Map;
  Map* map;
  void op(int o, int k, int t) {
    int v = 10 + k * 10 + t;
    long r0 = 0, r1 = 0;
    op_begin(o, k, v, o == O_TRYGET);
    switch (o) {
      case O_EMPLACE: r0 = M::emplace(*map, k, v); break;
      case O_ERASE: r0 = map->erase(M::key(k)); break;
      case O_TRYGET: {
        auto r = M::try_get(*map, k);
        r0 = r.first;
        r1 = r.second;
        if (opt("dbg", 0) && !r.first && k == opt("dbg", 0) - 1) fail("DBG", "try_get_value(%d) reported absent", k);
        break;
      }
      case O_FIND: {
        auto it = map->find(M::key(k));
        r0 = it != map->end();
        if (r0) {
          if (M::it_key(it) != k) fail("ORACLE", "find(%d) returned an iterator to key %d", k, M::it_key(it));
          r1 = M::it_val(it);
        }
        it.reset();
        break;
      }
      case O_GET_OR_EMPLACE: {
        auto r = M::get_or_emplace(*map, k, v);
        r0 = r.first;
        r1 = r.second;
        break;
      }
      case O_EXTRACT: {
        auto r = M::extract(*map, k);
        r0 = r.first;
        r1 = r.second;
        break;
      }
    }
    op_end(r0, r1);
  }
  void snapshot() {
    long mask = 0, sum = 0;
    op_begin(O_SNAPSHOT, 0, 0, false);
    for (auto it = map->begin(); it != map->end(); ++it) {
      int k = M::it_key(it);
      if (k < 0 || k >= NKEYS + 2) fail("ORACLE", "iteration yields an unknown key (%d)", k);
      if (mask & (1 << k)) fail("ORACLE", "iteration yields key %d twice", k);
      mask |= 1 << k;
      sum += (long)M::it_val(it) * (k + 1);
    }
    op_end(mask, sum);
  }
};

template <class M>
void map_test() {
  set_op_names(kOps, 14);
  const int T = (int)opt("T", 2), m = (int)opt("m", 2), nkeys = (int)opt("keys", 2), cap = (int)opt("cap", 1);
  const long mask = opt("ops", 0x3f);
  const int prefill = (int)opt("prefill", -1) >= 0 ? (int)opt("prefill", 0) : choose(1 << nkeys);
  int alpha[16], na = 0;
  for (int o = 0; o < NOPS; o++)
    if (mask & (1 << o)) alpha[na++] = o;
  static int ops[MAXT][8], keys[MAXT][8];
  bool any_update = false;
  for (int t = 0; t < T; t++)
    for (int i = 0; i < m; i++) {
      ops[t][i] = alpha[choose(na)];
      keys[t][i] = choose(nkeys);
      if (ops[t][i] != O_TRYGET && ops[t][i] != O_FIND) any_update = true;
    }
  if (!any_update) prune();
  for (int t = 0; t + 1 < T; t++) {
    int cmp = 0;
    for (int i = 0; i < m && !cmp; i++) cmp = (ops[t][i] * 8 + keys[t][i]) - (ops[t + 1][i] * 8 + keys[t + 1][i]);
    if (cmp > 0) prune();
  }
  Runner<M> r;
  r.map = new typename M::Map(cap);
  for (int k = 0; k < nkeys; k++)
    if (prefill & (1 << k)) r.op(O_EMPLACE, k, 9);
  if (T == 1) {
    mark_nontrivial();
    for (int i = 0; i < m; i++) r.op(ops[0][i], keys[0][i], 1);
  } else {
    for (int t = 0; t < T; t++)
      spawn([=]() mutable {
        for (int i = 0; i < m; i++) r.op(ops[t][i], keys[t][i], t + 1);
      });
    join_all();
  }
  r.snapshot();
  delete r.map;
  lin::require_linearizable(MapSpec{}, "a sequential map");
}

// ===================================================================================================
// C11 iterators
// ===================================================================================================
// One iterator thread performs an enumerated sequence of iterator actions; in sequential mode it also performs
// ordinary map operations in between (only while it holds no bucket, or on keys of other buckets - holding a
// bucket and then operating on the same bucket from the same thread is a self-deadlock by design).
template <class M>
void iter_test() {
  set_op_names(kOps, 14);
  const int nkeys = (int)opt("keys", 4), cap = (int)opt("cap", 128), L = (int)opt("steps", 5);
  const int U = (int)opt("updaters", 0), m = (int)opt("m", 1), Rd = (int)opt("readers", 0);
  const int prefill = (int)opt("prefill", -1) >= 0 ? (int)opt("prefill", 0) : choose(1 << nkeys);
  static int uops[MAXT][8], ukeys[MAXT][8];
  // --opt uemplace=1: updaters only insert; --opt ukeymask=<bits>: updaters only use these keys (targeted families, e.g. "the insertion that makes the map grow")
  const int uemplace = (int)opt("uemplace", 0), ukeymask = (int)opt("ukeymask", 0);
  int ukeylist[NKEYS], nuk = 0;
  for (int k = 0; k < nkeys; k++)
    if (!ukeymask || (ukeymask & (1 << k))) ukeylist[nuk++] = k;
  for (int t = 0; t < U; t++)
    for (int i = 0; i < m; i++) {
      uops[t][i] = uemplace ? O_EMPLACE : choose(2) ? O_ERASE : O_EMPLACE;
      ukeys[t][i] = ukeylist[nuk > 1 ? choose(nuk) : 0];
    }
  static int rkeys[MAXT][8];
  for (int t = 0; t < Rd; t++)
    for (int i = 0; i < m; i++) rkeys[t][i] = choose(nkeys);
  Runner<M> r;
  r.map = new typename M::Map(cap);
  for (int k = 0; k < nkeys; k++)
    if (prefill & (1 << k)) r.op(O_EMPLACE, k, 9);
  auto itthread = [=]() mutable {
    using It = typename M::Map::iterator;
    It it; // == end()
    bool positioned = false;
    int cur_key = 0;
    auto& map = *r.map;
    for (int step = 0; step < L; step++) {
      // actions: 0 begin, 1 ++, 2 erase(it), 3 reset, 4 find(k) (move-assign onto whatever `it` is), 5 map op (only when not positioned)
      int act = step == 0 && opt("act0", -1) >= 0 ? (int)opt("act0", 0) : step == 1 && opt("act1", -1) >= 0 ? (int)opt("act1", 0) : choose(opt("mapops", 1) ? 6 : 5);
      switch (act) {
        case 0:
          if (positioned) prune(); // begin() while holding a bucket would self-deadlock on the same bucket: not a legal program
          op_begin(O_IT_BEGIN, 0, 0, false);
          it = map.begin();
          positioned = it != map.end();
          op_end(positioned);
          break;
        case 1:
          if (!positioned) prune();
          op_begin(O_IT_NEXT, 0, 0, false);
          ++it;
          positioned = it != map.end();
          op_end(positioned);
          break;
        case 2: {
          if (!positioned) prune();
          int k = M::it_key(it);
          op_begin(O_IT_ERASE, k, 0, false);
          map.erase(it);
          positioned = it != map.end();
          op_end(1);
          break;
        }
        case 3:
          op_begin(O_IT_RESET, 0, 0, false);
          it.reset();
          positioned = false;
          op_end();
          break;
        case 4: {
          int k = opt("findkey", -1) >= 0 ? (int)opt("findkey", 0) : choose(nkeys);
          // find() locks the bucket of k before the result is move-assigned onto `it`: legal while positioned only
          // if k lives in another bucket.  The move-assignment has to release the bucket `it` held so far.
          if (positioned && M::bucket_of(k) == M::bucket_of(cur_key)) prune();
          // taking a second bucket while holding one is only deadlock-free in the order in which ++ and grow() take them; with updaters that can make the
          // map grow (fewer than 128 buckets: no extension items) a find() from a held bucket is a lock-order inversion of the client, not a defect
          if (positioned && U > 0 && cap < 128) prune();
          op_begin(positioned ? O_IT_MOVE_ASSIGN : O_IT_FIND, k, 0, false);
          it = map.find(M::key(k));
          positioned = it != map.end();
          if (positioned && M::it_key(it) != k) fail("ORACLE", "find(%d) returned an iterator to key %d", k, M::it_key(it));
          op_end(positioned, positioned ? M::it_val(it) : 0);
          break;
        }
        default: {
          int o = choose(2) ? O_ERASE : O_EMPLACE;
          int k = choose(nkeys);
          if (positioned && M::bucket_of(k) == M::bucket_of(cur_key)) prune(); // would wait for our own bucket lock
          r.op(o, k, 1);
          break;
        }
      }
      if (positioned) {
        int k = M::it_key(it);
        cur_key = k;
        op_begin(O_YIELD, k, 0, false);
        op_end(M::it_val(it));
      }
    }
    op_begin(O_IT_RESET, 0, 0, false);
    it.reset();
    op_end();
  };
  if (U == 0 && Rd == 0) {
    mark_nontrivial();
    itthread();
  } else {
    spawn(itthread);
    for (int t = 0; t < U; t++)
      spawn([=]() mutable {
        for (int i = 0; i < m; i++) r.op(uops[t][i], ukeys[t][i], t + 2);
      });
    for (int t = 0; t < Rd; t++)
      spawn([=]() mutable {
        for (int i = 0; i < m; i++) r.op(O_TRYGET, rkeys[t][i], t + 5);
      });
    join_all();
  }
  if (opt("dbg2", 0)) {
    int k = (int)opt("dbg2", 0) - 1;
    bool erased = false, absent = false;
    for (int i = 0; i < history_size(); i++) {
      const Event& e = history_at(i);
      if ((e.op == O_ERASE || e.op == O_IT_ERASE) && e.a0 == k) erased = true;
      if (e.op == O_TRYGET && e.a0 == k && e.r0 == 0) absent = true;
    }
    if (absent && !erased) fail("DBG", "try_get_value(%d) absent although never erased", k);
  }
  // every bucket lock must have been released: these operations spin forever otherwise (-> LIVELOCK verdict)
  for (int k = 0; k < nkeys; k++) r.op(O_TRYGET, k, 0);
  for (int k = NKEYS; k < NKEYS + 2; k++) { // keys 8 and 9 live in bucket 0 and 1 (or both in the only bucket)
    op_begin(O_EMPLACE, k, 77, false);
    bool ok = M::emplace(*r.map, k, 77);
    op_end(ok);
    op_begin(O_ERASE, k, 0, false);
    ok = r.map->erase(M::key(k));
    op_end(ok);
  }
  r.snapshot();
  delete r.map;
  // oracle: translate iterator actions into map operations: erase(it) == successful erase of that key,
  // yield(k)=v == a find that saw (k,v); the rest are no-ops for the abstract map.
  struct ItSpec : MapSpec {
    bool apply(const Event& e) {
      switch (e.op) {
        case O_IT_ERASE: {
          int k = (int)e.a0;
          if (val[k] < 0) return false; // erase(iterator) must remove exactly the element it refers to
          val[k] = -1;
          return true;
        }
        case O_YIELD: return val[(int)e.a0] >= 0 && val[(int)e.a0] == e.r0;
        case O_IT_FIND:
        case O_IT_MOVE_ASSIGN:
          if (e.r0) return val[(int)e.a0] >= 0 && val[(int)e.a0] == e.r1;
          return val[(int)e.a0] < 0;
        case O_IT_BEGIN:
        case O_IT_NEXT:
        case O_IT_RESET: return true;
        default: return MapSpec::apply(e);
      }
    }
  };
  lin::require_linearizable(ItSpec{}, "a sequential map (iterator actions as map operations)");
  // traversal completeness in the sequential case: begin followed by ++ until end yields every element once
  if (U == 0 && Rd == 0 && opt("full_traversal", 1)) {
    typename M::Map* m2 = new typename M::Map(cap);
    Runner<M> r2;
    r2.map = m2;
    int present = 0;
    for (int k = 0; k < nkeys; k++)
      if ((prefill >> k) & 1) {
        M::emplace(*m2, k, 5);
        present++;
      }
    int seen = 0, n = 0;
    for (auto it = m2->begin(); it != m2->end(); ++it) {
      int k = M::it_key(it);
      if (seen & (1 << k)) fail("ORACLE", "full traversal yields key %d twice", k);
      seen |= 1 << k;
      n++;
    }
    if (n != present) fail("ORACLE", "full traversal yields %d of %d elements", n, present);
    delete m2;
  }
}

// fixed scenario: the iterator thread removes an element through find + erase(iterator) + reset while a lock-free
// reader looks up another key of the same bucket (erase positions: extension head, second extension item, array slot)
template <class M>
void iter_fixed_test() {
  set_op_names(kOps, 14);
  const int nkeys = (int)opt("keys", 5), cap = 128;
  Runner<M> r;
  r.map = new typename M::Map(cap);
  for (int k = 0; k < nkeys; k++) r.op(O_EMPLACE, k, 9);
  const int victim = choose(nkeys);
  const int wanted = choose(nkeys);
  if (wanted == victim) prune();
  spawn([=]() mutable {
    auto& map = *r.map;
    op_begin(O_IT_FIND, victim, 0, false);
    auto it = map.find(M::key(victim));
    bool pos = it != map.end();
    op_end(pos, pos ? M::it_val(it) : 0);
    if (!pos) fail("ORACLE", "find(%d) did not find the element", victim);
    op_begin(O_IT_ERASE, victim, 0, false);
    map.erase(it);
    op_end(1);
    op_begin(O_IT_RESET, 0, 0, false);
    it.reset();
    op_end();
  });
  spawn([=]() mutable { r.op(O_TRYGET, wanted, 5); });
  join_all();
  for (int k = 0; k < nkeys; k++) r.op(O_TRYGET, k, 0);
  r.snapshot();
  delete r.map;
  struct ItSpec : MapSpec {
    bool apply(const Event& e) {
      switch (e.op) {
        case O_IT_ERASE: {
          int k = (int)e.a0;
          if (val[k] < 0) return false;
          val[k] = -1;
          return true;
        }
        case O_IT_FIND:
          if (e.r0) return val[(int)e.a0] >= 0 && val[(int)e.a0] == e.r1;
          return val[(int)e.a0] < 0;
        case O_IT_RESET: return true;
        default: return MapSpec::apply(e);
      }
    }
  };
  lin::require_linearizable(ItSpec{}, "a sequential map (iterator actions as map operations)");
}

// ===================================================================================================
// Sequential sweep (C10, C11): maps of initial capacity 1 / 8 / 128 filled with up to `maxn` keys (several grows;
// with colliding keys long extension chains), partially emptied in one of five ways (erase, extract, erase through a
// full-traversal iterator, erase through find()), refilled, and compared key by key with a reference: try_get_value,
// find and a full traversal must agree with it after every phase; finally everything is removed through an iterator
// and the map must be empty and still usable (no bucket left locked).
template <class M>
void map_sweep() {
  using Map = typename M::Map;
  const int maxn = (int)opt("maxn", 24);
  static const int caps[] = {1, 8, 128, 2, 64};
  const int cap = caps[choose((int)opt("ncaps", 3))];
  const int n = 1 + choose(maxn);
  const int how = choose(5);    // which keys go: 0 none, 1 even, 2 first half, 3 all but the last, 4 every third
  const int via = choose(4);    // 0 erase(key), 1 extract, 2 traversal + erase(iterator), 3 find + erase(iterator)
  const int refill = choose(2); // re-insert what was removed (new values)
  Map* map = new Map(cap);
  int ref[64];
  for (int i = 0; i < 64; i++) ref[i] = -1;
  auto check_all = [&](const char* phase) {
    int count = 0;
    for (int k = 0; k < n + 1 && k < 64; k++) {
      auto r = M::try_get(*map, k);
      if (r.first != (ref[k] >= 0) || (r.first && r.second != ref[k]))
        fail("ORACLE", "%s: try_get_value(%d) = (%d, %d), reference has %d (cap %d, n %d)", phase, k, (int)r.first, r.second, ref[k], cap, n);
      auto it = map->find(M::key(k));
      bool found = it != map->end();
      if (found != (ref[k] >= 0) || (found && (M::it_key(it) != k || M::it_val(it) != ref[k])))
        fail("ORACLE", "%s: find(%d) disagrees with the reference value %d", phase, k, ref[k]);
      it.reset();
      count += ref[k] >= 0;
      if (ref[k] >= 0) { // insertion succeeds iff the key is absent - wherever the key is stored after grows and removals
        if (M::emplace(*map, k, 7)) fail("ORACLE", "%s: emplace of the present key %d succeeded (cap %d, n %d)", phase, k, cap, n);
        auto g = M::get_or_emplace(*map, k, 8);
        if (g.first || g.second != ref[k]) fail("ORACLE", "%s: get_or_emplace on the present key %d returned (%d, %d), expected value %d", phase, k, (int)g.first, g.second, ref[k]);
      }
    }
    bool seen[64] = {};
    int yielded = 0;
    for (auto it = map->begin(); it != map->end(); ++it) {
      int k = M::it_key(it);
      if (k < 0 || k >= 64 || ref[k] < 0) fail("ORACLE", "%s: traversal yields key %d, which is not in the map", phase, k);
      if (seen[k]) fail("ORACLE", "%s: traversal yields key %d twice", phase, k);
      if (M::it_val(it) != ref[k]) fail("ORACLE", "%s: traversal yields value %d for key %d, expected %d", phase, M::it_val(it), k, ref[k]);
      seen[k] = true;
      yielded++;
    }
    if (yielded != count) fail("ORACLE", "%s: traversal yields %d elements, the map holds %d (cap %d, n %d)", phase, yielded, count, cap, n);
  };
  for (int k = 0; k < n; k++) {
    int v = 100 + k;
    bool ok = (k % 3 == 2) ? M::get_or_emplace(*map, k, v).first : M::emplace(*map, k, v);
    if (!ok) fail("ORACLE", "insertion of the absent key %d failed", k);
    ref[k] = v;
    if (M::emplace(*map, k, 7)) fail("ORACLE", "second insertion of key %d succeeded", k);
    auto g = M::get_or_emplace(*map, k, 8);
    if (g.first || g.second != v) fail("ORACLE", "get_or_emplace on the present key %d returned (%d, %d)", k, (int)g.first, g.second);
  }
  check_all("after the fill");
  auto goes = [&](int k) {
    switch (how) {
      case 1: return (k & 1) == 0;
      case 2: return k < n / 2;
      case 3: return k != n - 1;
      case 4: return k % 3 == 0;
      default: return false;
    }
  };
  if (via == 2) {
    for (auto it = map->begin(); it != map->end();) {
      int k = M::it_key(it);
      if (k < 0 || k >= 64 || ref[k] < 0) fail("ORACLE", "erasing traversal yields key %d, which is not in the map", k);
      if (goes(k)) {
        map->erase(it);
        ref[k] = -1;
      } else
        ++it;
    }
  } else {
    for (int k = 0; k < n; k++) {
      if (!goes(k)) continue;
      if (via == 0) {
        if (!map->erase(M::key(k))) fail("ORACLE", "erase of the present key %d failed", k);
        if (map->erase(M::key(k))) fail("ORACLE", "second erase of key %d succeeded", k);
      } else if (via == 1) {
        auto r = M::extract(*map, k);
        if (!r.first || r.second != ref[k]) fail("ORACLE", "extract(%d) = (%d, %d), expected value %d", k, (int)r.first, r.second, ref[k]);
      } else {
        auto it = map->find(M::key(k));
        if (it == map->end()) fail("ORACLE", "find of the present key %d failed", k);
        map->erase(it);
        it.reset();
      }
      ref[k] = -1;
    }
  }
  check_all("after the removals");
  if (refill) {
    for (int k = n - 1; k >= 0; k--)
      if (ref[k] < 0) {
        int v = 300 + k;
        auto g = M::get_or_emplace(*map, k, v);
        if (!g.first || g.second != v) fail("ORACLE", "get_or_emplace on the absent key %d returned (%d, %d)", k, (int)g.first, g.second);
        ref[k] = v;
      }
    check_all("after the refill");
  }
  int removed = 0, expected = 0;
  for (int k = 0; k < 64; k++) expected += ref[k] >= 0;
  for (auto it = map->begin(); it != map->end();) {
    int k = M::it_key(it);
    if (k < 0 || k >= 64 || ref[k] < 0) fail("ORACLE", "final traversal yields key %d, which is not in the map", k);
    ref[k] = -1;
    map->erase(it);
    removed++;
  }
  if (removed != expected) fail("ORACLE", "the final erasing traversal removed %d elements, the map held %d", removed, expected);
  check_all("after the final traversal");
  if (!M::emplace(*map, 0, 5)) fail("ORACLE", "emplace into the emptied map failed");
  ref[0] = 5;
  check_all("at the end");
  mark_nontrivial();
  delete map;
}

using R_HP = rec::HPs<6>;
using R_HE = rec::HEs<6>;
using R_EBR = rec::EBR;
using R_QSBR = rec::QSBR;
using R_STAMP = rec::STAMP;
using R_NEBR = rec::NEBR;
using R_DEBRA = rec::DEBRA;
#define C_ ,
#define REGM(name, M) \
  XMC_TEST_FN("map_" name, (&map_test<M>), "vyukov_hash_map " name); \
  XMC_TEST_FN("it_" name, (&iter_test<M>), "vyukov_hash_map iterators " name); \
  XMC_TEST_FN("itf_" name, (&iter_fixed_test<M>), "vyukov_hash_map find+erase(iterator) vs lock-free reader " name)
#define REGS(name, M) XMC_TEST_FN("sweep_" name, (&map_sweep<M>), "vyukov_hash_map sequential sweep " name)
REGS("tt_id_hp", ModeTT<R_HP C_ KM_ID>);
REGS("tt_i1_hp", ModeTT<R_HP C_ KM_I1>);
REGS("tt_i4_ebr", ModeTT<R_EBR C_ KM_I4>);
REGS("tn_i4_hp", ModeTN<R_HP C_ KM_I4>);
REGS("tn_id_ebr", ModeTN<R_EBR C_ KM_ID>);
REGS("st_sid_hp", ModeTT<R_HP C_ KM_SID>);
REGS("st_s1_hp", ModeTT<R_HP C_ KM_S1>);
REGS("sn_sid_ebr", ModeTN<R_EBR C_ KM_SID>);
REGS("tm_i4_hp", ModeTM<R_HP C_ KM_I4>);
REGS("tm_id_ebr", ModeTM<R_EBR C_ KM_ID>);
REGS("sm_sid_hp", ModeTM<R_HP C_ KM_SID>);
REGM("tt_i1_hp", ModeTT<R_HP C_ KM_I1>);
REGM("tt_i2_hp", ModeTT<R_HP C_ KM_I2>);
REGM("tt_ic_hp", ModeTT<R_HP C_ KM_IC>);
REGM("tt_i1_ebr", ModeTT<R_EBR C_ KM_I1>);
REGM("tt_i1_he", ModeTT<R_HE C_ KM_I1>);
REGM("tt_i1_qsbr", ModeTT<R_QSBR C_ KM_I1>);
REGM("tt_i1_nebr", ModeTT<R_NEBR C_ KM_I1>);
REGM("tt_i1_debra", ModeTT<R_DEBRA C_ KM_I1>);
REGM("tt_i1_stamp", ModeTT<R_STAMP C_ KM_I1>);
REGM("tn_i1_hp", ModeTN<R_HP C_ KM_I1>);
REGM("tn_i2_ebr", ModeTN<R_EBR C_ KM_I2>);
REGM("st_s1_hp", ModeTT<R_HP C_ KM_S1>);
REGM("st_s2_hp", ModeTT<R_HP C_ KM_S2>);
REGM("st_s1_ebr", ModeTT<R_EBR C_ KM_S1>);
REGM("sn_s1_hp", ModeTN<R_HP C_ KM_S1>);
REGM("tm_i1_hp", ModeTM<R_HP C_ KM_I1>);
REGM("tm_i2_ebr", ModeTM<R_EBR C_ KM_I2>);
REGM("sm_s1_hp", ModeTM<R_HP C_ KM_S1>);
REGM("sm_s2_ebr", ModeTM<R_EBR C_ KM_S2>);
} // namespace
