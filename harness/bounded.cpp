// C05: vyukov_bounded_queue (strong and weak operations) and nikolaev_bounded_queue are linearizable bounded FIFOs.
#include "harness/common.h"

#include <xenium/nikolaev_bounded_queue.hpp>
#include <xenium/vyukov_bounded_queue.hpp>

#include <optional>

using namespace xmc;

namespace {
const char* const kOps[] = {"try_push_strong", "try_pop_strong", "try_push_weak", "try_pop_weak"};
enum { PUSH_S, POP_S, PUSH_W, POP_W };

// Bounded FIFO with exactly the slack C05 grants:
//  * weak operations may fail spuriously (a failed weak op is always legal), but may never succeed wrongly
//  * if `inflight_slack`: a failed push is legal when size + (#operations of other threads overlapping it) >= capacity
struct BoundedFifoSpec {
  uint8_t q[40]; // (12 were too few for the capacity-16 runs of the thorough tier: a false LIN alarm of the harness itself)
  int n = 0;
  int cap = 0;
  bool inflight_slack = false;
  bool apply(const Event& e) {
    bool push = e.op == PUSH_S || e.op == PUSH_W;
    bool weak = e.op == PUSH_W || e.op == POP_W;
    if (push) {
      if (e.r0) { // success
        if (n >= cap) return false;
        if (n >= 40) xmc::fail("ENGINE", "bounded.cpp: reference queue too small");
        q[n++] = uint8_t(e.a0);
        return true;
      }
      if (weak) return true;
      int slack = inflight_slack ? (int)e.res_vc[MAXT - 1] : 0;
      return n + slack >= cap;
    }
    if (e.r0) {
      if (n == 0 || q[0] != e.r1) return false;
      for (int i = 1; i < n; i++) q[i - 1] = q[i];
      n--;
      return true;
    }
    if (weak) return true;
    return n == 0;
  }
  uint64_t hash() const {
    uint64_t h = n;
    for (int i = 0; i < n; i++) h = h * 1099511628211ull + q[i] + 1;
    return h;
  }
};

struct VyukovAdapter {
  using Q = xenium::vyukov_bounded_queue<int>;
  static constexpr bool slack = false;
  static constexpr int nops = 4;
  static Q* make(int cap) { return new Q(cap); }
  static int capacity(Q&, int cap) { return cap; }
  static bool lockfree(int op) { return op == PUSH_W || op == POP_W; }
  static bool push(Q& q, int op, int v) { return op == PUSH_S ? q.try_push_strong(v) : q.try_push_weak(v); }
  static bool pop(Q& q, int op, int& v) { return op == POP_S ? q.try_pop_strong(v) : q.try_pop_weak(v); }
};
// the policy-dispatched entry points try_push / try_pop / pop and the std::optional returning pop_strong / pop_weak:
// with DefaultToWeak = false the unsuffixed operations must behave like the strong ones, with true like the weak ones
template <bool DefaultToWeak>
struct VyukovApiAdapter {
  using Q = xenium::vyukov_bounded_queue<int, xenium::policy::default_to_weak<DefaultToWeak>>;
  static constexpr bool slack = false;
  static constexpr int nops = 4;
  static Q* make(int cap) { return new Q(cap); }
  static int capacity(Q&, int cap) { return cap; }
  static bool lockfree(int op) { return op == PUSH_W || op == POP_W; }
  static bool push(Q& q, int op, int v) {
    if ((op == PUSH_W) == DefaultToWeak) return q.try_push(v);
    return op == PUSH_S ? q.try_push_strong(v) : q.try_push_weak(v);
  }
  static bool pop(Q& q, int op, int& v) {
    std::optional<int> r;
    if ((op == POP_W) == DefaultToWeak) {
      if (v & 1) return q.try_pop(v);
      r = q.pop();
    } else
      r = op == POP_S ? q.pop_strong() : q.pop_weak();
    if (r) v = *r;
    return r.has_value();
  }
};
template <unsigned Retries>
struct NikolaevAdapter {
  using Q = xenium::nikolaev_bounded_queue<int, xenium::policy::pop_retries<Retries>>;
  static constexpr bool slack = true;
  static constexpr int nops = 2;
  static Q* make(int cap) { return new Q(cap); }
  static int capacity(Q& q, int) { return (int)q.capacity(); }
  static bool lockfree(int) { return true; }
  static bool push(Q& q, int, int v) { return q.try_push(v); }
  static bool pop(Q& q, int, int& v) {
    if ((v & 1) == 0) return q.try_pop(v);
    auto r = q.pop(); // the std::optional returning entry point
    if (r) v = *r;
    return r.has_value();
  }
};

template <class A>
void bounded_test() {
  set_op_names(kOps, 4);
  const int T = (int)opt("T", 2), m = (int)opt("m", 2), cap = (int)opt("cap", 2);
  const int wrap = (int)opt("wrap", 0);
  const int prefill = (int)opt("prefill", -1) >= 0 ? (int)opt("prefill", 0) : choose(cap + 1);
  hx::Program p;
  int len[8];
  for (int t = 0; t < 8; t++) len[t] = m;
  if (opt("fixed", 0) == 1) {
    // adversarial family "lapping the ring": one pusher, one thread that pushes four times (one success, then
    // rejected pushes that walk the index ring), one popper; program lengths differ per thread
    p.T = 3;
    p.m = 4;
    len[0] = 1; len[1] = 4; len[2] = 1;
    p.op[0][0] = PUSH_S;
    for (int i = 0; i < 4; i++) p.op[1][i] = PUSH_S;
    p.op[2][0] = POP_S;
  } else {
    p = hx::choose_program(T, m, A::nops, true);
  }
  const int NT = opt("fixed", 0) ? p.T : T;
  typename A::Q* q = A::make(cap);
  const int rcap = A::capacity(*q, cap);
  int expect = 1;
  while (expect < cap) expect <<= 1;
  if (A::slack && rcap != expect) fail("ORACLE", "capacity() = %d, expected next power of two %d of %d", rcap, expect, cap);
  int next = 1;
  auto apply = [q](int op, int val) {
    if (op == PUSH_S || op == PUSH_W) {
      op_begin(op, val, 0, A::lockfree(op));
      bool ok = A::push(*q, op, val);
      op_end(ok);
    } else {
      int v = val; // in: sequence number of the operation (its parity selects the entry point); out: popped value
      op_begin(op, 0, 0, A::lockfree(op));
      bool ok = A::pop(*q, op, v);
      op_end(ok, ok ? v : 0);
    }
  };
  // advance the ring indexes (wrap-arounds) before the interesting part: not part of the checked history's
  // concurrency, but the operations are recorded and checked like all others
  for (int i = 0; i < wrap; i++) {
    apply(PUSH_S, 30);
    apply(POP_S, i);
  }
  for (int i = 0; i < prefill; i++) apply(PUSH_S, next++);
  for (int t = 0; t < NT; t++) {
    int base = next + t * 4;
    int n = len[t];
    spawn([p, t, n, base, apply] {
      for (int i = 0; i < n; i++) apply(p.op[t][i], base + i);
    });
  }
  join_all();
  // capacity conservation: at quiescence the ring must accept pushes until it really holds `capacity` elements
  // (a slot index leaked by a lost update makes the queue report "full" too early, for ever)
  for (int i = 0; i <= rcap; i++) {
    int before = history_size();
    apply(PUSH_S, 20 + i);
    if (history_at(before).r0 == 0) break;
  }
  for (int i = 0; i <= rcap + 1; i++) { // final drain with strong pops
    int before = history_size();
    apply(POP_S, i);
    if (history_at(before).r0 == 0) break;
  }
  delete q;
  BoundedFifoSpec s;
  s.cap = rcap;
  s.inflight_slack = A::slack;
  lin::require_linearizable(s, "a bounded FIFO queue (with the slack C05 grants)");
}

XMC_TEST_FN("vyukov", (&bounded_test<VyukovAdapter>), "vyukov_bounded_queue, strong + weak operations");
XMC_TEST_FN("vyukov_api", (&bounded_test<VyukovApiAdapter<false>>), "vyukov_bounded_queue, try_push / try_pop / pop (default: strong), pop_weak");
XMC_TEST_FN("vyukov_dw", (&bounded_test<VyukovApiAdapter<true>>), "vyukov_bounded_queue<default_to_weak<true>>, try_push / try_pop / pop (weak), pop_strong");
XMC_TEST_FN("nikolaev", (&bounded_test<NikolaevAdapter<1>>), "nikolaev_bounded_queue, pop_retries<1>");
XMC_TEST_FN("nikolaev_p0", (&bounded_test<NikolaevAdapter<0>>), "nikolaev_bounded_queue, pop_retries<0>");
} // namespace
