// Linearizability checking of recorded histories against boring sequential reference models.
// Wing-Gong search with memoisation over (set of linearised operations, spec state).
#pragma once
#include "xmc/xmc.h"
#include <cstdint>
#include <string>
#include <set>
#include <type_traits>
#include <utility>
#include <vector>

namespace lin {

// Spec concept:
//   bool apply(const xmc::Event& e);   // is e (with its recorded result) legal now? if so, take the step
//   uint64_t hash() const;             // hash of the abstract state (exact enough: collisions only cost soundness
//                                      // of memoisation, so specs use injective encodings for their tiny states)
// optional: `int variants(const Event&)` + `bool apply(const Event&, int variant)` for operations whose recorded
// result does not determine their effect (e.g. erase(iterator): removed the element, or somebody else already had)
template <class Spec, class = void>
struct HasVariants : std::false_type {};
template <class Spec>
struct HasVariants<Spec, std::void_t<decltype(std::declval<Spec&>().variants(std::declval<const xmc::Event&>()))>> : std::true_type {};

template <class Spec>
struct Checker {
  std::vector<xmc::Event> ev;
  std::vector<uint64_t> pred; // bitmask of events that must be linearised before i
  std::set<std::pair<uint64_t, uint64_t>> dead; // exact keys: specs use injective state encodings
  int n = 0;

  bool dfs(uint64_t done, const Spec& s) {
    if (done == ((uint64_t(1) << n) - 1)) return true;
    std::pair<uint64_t, uint64_t> key(s.hash(), done);
    if (dead.count(key)) return false;
    for (int i = 0; i < n; i++) {
      if (done & (uint64_t(1) << i)) continue;
      if ((pred[i] & ~done) != 0) continue; // something that precedes i is not linearised yet
      if constexpr (HasVariants<Spec>::value) {
        int nv = s.variants(ev[i]);
        for (int v = 0; v < nv; v++) {
          Spec t = s;
          if (t.apply(ev[i], v) && dfs(done | (uint64_t(1) << i), t)) return true;
        }
      } else {
        Spec t = s;
        if (t.apply(ev[i])) {
          if (dfs(done | (uint64_t(1) << i), t)) return true;
        }
      }
    }
    dead.insert(key);
    return false;
  }

  // number of operations of other threads that overlap operation i (neither precedes the other)
  std::vector<int> overlaps;

  // returns true if the complete history is linearizable w.r.t. `init`
  bool check(const Spec& init) {
    n = xmc::history_size();
    if (n > 60) xmc::fail("ENGINE", "history too long for the linearizability checker (%d)", n);
    ev.clear();
    for (int i = 0; i < n; i++) ev.push_back(xmc::history_at(i));
    pred.assign(n, 0);
    for (int i = 0; i < n; i++) {
      if (!ev[i].done) xmc::fail("ENGINE", "pending operation in final history");
      for (int j = 0; j < n; j++)
        if (i != j && xmc::precedes(ev[j], ev[i])) pred[i] |= uint64_t(1) << j;
    }
    // specs that grant slack per overlapping operation read the count from Event::res_vc[MAXT-1] (unused slot)
    for (int i = 0; i < n; i++) {
      int k = 0;
      for (int j = 0; j < n; j++)
        if (i != j && ev[i].tid != ev[j].tid && !xmc::precedes(ev[j], ev[i]) && !xmc::precedes(ev[i], ev[j])) k++;
      ev[i].res_vc[xmc::MAXT - 1] = (uint32_t)k;
    }
    return dfs(0, init);
  }
};

template <class Spec>
inline void require_linearizable(const Spec& init, const char* what) {
  Checker<Spec> c;
  if (!c.check(init)) xmc::fail("LIN", "history is not linearizable w.r.t. %s", what);
}

} // namespace lin
